package main

// Translation of function bodies: statements to `do`-block lines, expressions to Lean terms with the
// panicking sub-expressions hoisted into preceding `let tN_ ← …` lines, loops to separate definitions.

import (
	"bytes"
	"fmt"
	"go/ast"
	"go/constant"
	"go/printer"
	"go/token"
	"go/types"
	"sort"
	"strings"
)

// shared by the body of a function and the bodies of its loops
type shared struct {
	tmp, loopN int
	defs       []string            // finished loop definitions, innermost first
	clock      map[*types.Var]bool // local variables that hold a clock reading (usable only as a generator's seed)
}

type ctx struct {
	t    *translator
	f    *fn
	w    *writer
	sh   *shared
	loop *loopCtx // innermost enclosing loop, nil in the function body proper
	cur  ast.Stmt // the (innermost simple) statement being translated
	cond bool     // inside the right operand of && / || (evaluated conditionally: no stores possible)
	brw  bool     // the value being translated initialises a NEW local variable (a read-only borrow of a record)
}

type loopCtx struct {
	exit     string     // statement that leaves the loop with the current state (break / condition false)
	cont     func(*ctx) // emits post statement + recursive call (continue / end of body)
	hasRet   bool       // the loop yields Go.Ctl because its body contains `return`
	inSwitch bool
}

func (c *ctx) fail(n ast.Node, format string, a ...any) { c.t.fail(n, format, a...) }

func (c *ctx) fresh() string {
	c.sh.tmp++
	return fmt.Sprintf("t%d_", c.sh.tmp)
}

func (c *ctx) sub(w *writer) *ctx {
	d := *c
	d.w = w
	return &d
}

func (c *ctx) typeOf(e ast.Expr) types.Type {
	tv, ok := c.t.info.Types[e]
	if !ok || tv.Type == nil || tv.Type == types.Typ[types.Invalid] {
		c.fail(e, "expression without type information")
	}
	return tv.Type
}

func isInt(ty types.Type) bool {
	b, ok := ty.Underlying().(*types.Basic)
	return ok && (b.Kind() == types.Int || b.Kind() == types.UntypedInt)
}

func isBool(ty types.Type) bool {
	b, ok := ty.Underlying().(*types.Basic)
	return ok && (b.Kind() == types.Bool || b.Kind() == types.UntypedBool)
}

func (c *ctx) builtin(e ast.Expr) string {
	if id, ok := ast.Unparen(e).(*ast.Ident); ok {
		if _, isB := c.t.info.Uses[id].(*types.Builtin); isB {
			return id.Name
		}
	}
	return ""
}

// ---------------------------------------------------------------------------------------- expressions

func intLit(s string) string {
	if strings.HasPrefix(s, "-") {
		return "(" + s + ")"
	}
	return s
}

// constTerm: a constant of type int, bool, uint / uint64, byte or string as a Lean literal (of the type go/types gave it:
// an untyped constant has already been converted to the type its context requires).
func constTerm(tv types.TypeAndValue) (string, bool) {
	if tv.Value == nil || tv.Type == nil {
		return "", false
	}
	switch {
	case isInt(tv.Type) && tv.Value.Kind() == constant.Int:
		return intLit(tv.Value.ExactString()), true
	case isBool(tv.Type) && tv.Value.Kind() == constant.Bool:
		return tv.Value.String(), true
	case isU64(tv.Type) && tv.Value.Kind() == constant.Int:
		return "(" + tv.Value.ExactString() + " : UInt64)", true
	case isU8(tv.Type) && tv.Value.Kind() == constant.Int:
		return "(" + tv.Value.ExactString() + " : UInt8)", true
	case isString(tv.Type) && tv.Value.Kind() == constant.String:
		var bs []string
		for _, b := range []byte(constant.StringVal(tv.Value)) {
			bs = append(bs, fmt.Sprint(b))
		}
		return "([" + strings.Join(bs, ", ") + "] : Go.Str)", true
	}
	return "", false
}

// expr returns a PURE Lean term for e; whatever can panic has been bound by lines emitted before.
func (c *ctx) expr(e ast.Expr) string {
	tv := c.t.info.Types[e]
	switch x := e.(type) {
	case *ast.ParenExpr:
		return c.expr(x.X)
	case *ast.BasicLit:
		if s, ok := constTerm(tv); ok {
			return s
		}
		c.fail(e, "literal %s", x.Value)
	case *ast.Ident:
		if tv.Value != nil { // named constant, true, false
			if s, ok := constTerm(tv); ok {
				return s
			}
			c.fail(e, "constant %s of type %s", x.Name, tv.Type)
		}
		if tv.IsNil() {
			if r, isPtr := c.t.record(tv.Type); r != nil && isPtr {
				return "none"
			}
			c.fail(e, "nil of type %s", tv.Type)
		}
		v := c.t.varOf(x)
		if v == nil {
			c.fail(e, "identifier %s (not a local variable, parameter or constant)", x.Name)
		}
		if v.Parent() == c.t.pkg.Scope() {
			c.fail(e, "package-level variable %s", x.Name)
		}
		if c.sh.clock[v] {
			c.fail(e, "clock reading %s used other than as the seed of rand.NewSource", x.Name)
		}
		c.t.ident(x) // refuses names that clash with the translator's own
		return varName(v)
	case *ast.UnaryExpr:
		switch x.Op {
		case token.SUB:
			if isInt(tv.Type) || isUnsigned(tv.Type) { // (unsigned: wraps, as in Go)
				return "(-" + c.expr(x.X) + ")"
			}
		case token.XOR: // ^x
			if isUnsigned(tv.Type) {
				return "(~~~" + c.expr(x.X) + ")"
			}
			if isInt(tv.Type) {
				return "(-" + c.expr(x.X) + " - 1)"
			}
		case token.NOT:
			return "(!" + c.expr(x.X) + ")"
		case token.AND:
			if cl, ok := ast.Unparen(x.X).(*ast.CompositeLit); ok {
				if r, _ := c.t.record(c.typeOf(cl)); r != nil {
					return "(some " + c.composite(cl) + ")"
				}
				return c.composite(cl)
			}
		}
		c.fail(e, "unary operator %s on %s", x.Op, c.typeOf(x.X))
	case *ast.BinaryExpr:
		return c.binary(x)
	case *ast.SelectorExpr:
		if sel, ok := c.t.info.Uses[x.Sel].(*types.Var); !ok || !sel.IsField() {
			c.fail(e, "method value or qualified identifier %s", x.Sel.Name)
		}
		if r, isPtr := c.t.record(c.typeOf(x.X)); r != nil {
			base := c.expr(x.X)
			if isPtr { // p.f on a nil pointer panics
				base = c.hoist("Go.deref %s", paren(base))
			}
			return paren(base) + "." + c.t.ident(x.Sel)
		}
		if c.t.ownStruct(c.typeOf(x.X)) == nil {
			c.fail(e, "selector on %s", c.typeOf(x.X))
		}
		return paren(c.expr(x.X)) + "." + c.t.ident(x.Sel)
	case *ast.IndexExpr:
		if isString(c.typeOf(x.X)) { // s[i]: a byte
			s, i := c.expr(x.X), c.indexTerm(x.Index)
			return c.hoist("Go.strIdx %s %s", paren(s), paren(i))
		}
		if !isSlice(c.typeOf(x.X)) && !isArray(c.typeOf(x.X)) {
			c.fail(e, "index into %s", c.typeOf(x.X))
		}
		s, i := c.expr(x.X), c.indexTerm(x.Index)
		return c.hoist("Go.idx %s %s", paren(s), paren(i))
	case *ast.CallExpr:
		return c.callExpr(x)
	case *ast.CompositeLit:
		return c.composite(x)
	}
	c.fail(e, "expression %T", e)
	return ""
}

// indexTerm: an index operand as an Int (an index of unsigned type cannot be negative: its value as a natural number).
func (c *ctx) indexTerm(e ast.Expr) string {
	ty := c.typeOf(e)
	switch {
	case isInt(ty):
		return c.expr(e)
	case isUnsigned(ty):
		return "(" + paren(c.expr(e)) + ".toNat : Int)"
	}
	c.fail(e, "index of type %s", ty)
	return ""
}

// valueAs: like value, for a place of type want — so that an untyped `nil` becomes that type's nil.
func (c *ctx) valueAs(e ast.Expr, moved bool, want types.Type) string {
	if tv := c.t.info.Types[e]; tv.IsNil() {
		if r, isPtr := c.t.record(want); r != nil && isPtr {
			return "none"
		}
		if isSlice(want) {
			// a nil slice: length 0, append works — indistinguishable from an empty one, since comparing a slice with
			// nil is outside the subset
			return "(#[] : " + c.t.leanType(want, e) + ")"
		}
		c.fail(e, "nil of type %s", want)
	}
	return c.value(e, moved)
}

// lhsType: the type of an assignment target (a `:=` target has no entry in info.Types).
func (c *ctx) lhsType(l ast.Expr) types.Type {
	if id, ok := l.(*ast.Ident); ok {
		if id.Name == "_" {
			return types.Typ[types.Invalid]
		}
		if v := c.t.varOf(id); v != nil {
			return v.Type()
		}
	}
	return c.typeOf(l)
}

func (c *ctx) isRecord(ty types.Type) bool {
	r, _ := c.t.record(ty)
	return r != nil
}

func (c *ctx) hoist(format string, a ...any) string {
	tmp := c.fresh()
	c.w.emit("let %s ← %s", tmp, fmt.Sprintf(format, a...))
	return tmp
}

func (c *ctx) binary(x *ast.BinaryExpr) string {
	lt, rt := c.typeOf(x.X), c.typeOf(x.Y)
	switch x.Op {
	case token.LAND, token.LOR:
		l := c.expr(x.X)
		rw := &writer{ind: c.w.ind + 2}
		rc := c.sub(rw)
		rc.cond = true
		r := rc.expr(x.Y)
		op := map[token.Token]string{token.LAND: "&&", token.LOR: "||"}[x.Op]
		if len(rw.lines) == 0 {
			return "(" + l + " " + op + " " + r + ")"
		}
		// the right operand can panic: it is evaluated only when Go evaluates it
		tmp := c.fresh()
		c.w.emit("let %s ←", tmp)
		if x.Op == token.LAND {
			c.w.emit("  if %s then do", l)
		} else {
			c.w.emit("  if !%s then do", paren(l))
		}
		c.w.lines = append(c.w.lines, rw.lines...)
		c.w.emit("    pure %s", paren(r))
		c.w.emit("  else pure %v", x.Op == token.LOR)
		return tmp
	}
	if x.Op == token.EQL || x.Op == token.NEQ { // p == nil, p != nil for a pointer to an immutable record
		for _, pr := range [][2]ast.Expr{{x.X, x.Y}, {x.Y, x.X}} {
			if r, isPtr := c.t.record(c.typeOf(pr[0])); r != nil && isPtr && c.t.info.Types[pr[1]].IsNil() {
				return "(" + paren(c.expr(pr[0])) + map[token.Token]string{token.EQL: ".isNone", token.NEQ: ".isSome"}[x.Op] + ")"
			}
		}
	}
	if x.Op == token.SHL || x.Op == token.SHR {
		return c.shift(x)
	}
	kind := ""
	switch {
	case isInt(lt) && isInt(rt):
		kind = "int"
	case isU64(lt) && isU64(rt), isU8(lt) && isU8(rt):
		kind = "uns"
	case isBool(lt) && isBool(rt) && (x.Op == token.EQL || x.Op == token.NEQ):
		kind = "bool"
	case isString(lt) && isString(rt), isOrderedParam(lt) && types.Identical(lt, rt):
		kind = "ord"
	default:
		c.fail(x, "operator %s on %s and %s", x.Op, lt, rt)
	}
	l, r := c.expr(x.X), c.expr(x.Y)
	if kind == "ord" { // Go's native order of strings and of a type parameter constrained by Ordered (no floats: see Go.Ordered)
		switch x.Op {
		case token.LSS:
			return "(Go.Ordered.lt " + paren(l) + " " + paren(r) + ")"
		case token.GTR:
			return "(Go.Ordered.lt " + paren(r) + " " + paren(l) + ")"
		case token.LEQ:
			return "(!(Go.Ordered.lt " + paren(r) + " " + paren(l) + "))"
		case token.GEQ:
			return "(!(Go.Ordered.lt " + paren(l) + " " + paren(r) + "))"
		case token.EQL, token.NEQ:
			if isString(lt) {
				return "(" + l + map[token.Token]string{token.EQL: " == ", token.NEQ: " != "}[x.Op] + r + ")"
			}
		}
		c.fail(x, "operator %s on %s", x.Op, lt)
	}
	switch x.Op {
	case token.ADD, token.SUB, token.MUL: // (unsigned: Lean's UInt arithmetic wraps around, as Go's does)
		return "(" + l + " " + x.Op.String() + " " + r + ")"
	case token.QUO, token.REM:
		if kind == "uns" {
			if c.t.nonZeroConst(x.Y) {
				return "(" + l + " " + x.Op.String() + " " + r + ")"
			}
			if !isU64(lt) {
				c.fail(x, "division of %s by a divisor that is not a non-zero constant", lt)
			}
			return c.hoist("Go.%sU64 %s %s", map[token.Token]string{token.QUO: "div", token.REM: "mod"}[x.Op], paren(l), paren(r))
		}
		name := map[token.Token]string{token.QUO: "div", token.REM: "mod"}[x.Op]
		if c.t.nonZeroConst(x.Y) {
			return "(Int.t" + name + " " + paren(l) + " " + paren(r) + ")"
		}
		return c.hoist("Go.%s %s %s", name, paren(l), paren(r))
	case token.AND, token.OR, token.XOR:
		if kind == "uns" {
			return "(" + l + " " + map[token.Token]string{token.AND: "&&&", token.OR: "|||", token.XOR: "^^^"}[x.Op] + " " + r + ")"
		}
		if kind == "int" {
			return "(Go." + map[token.Token]string{token.AND: "andInt", token.OR: "orInt", token.XOR: "xorInt"}[x.Op] + " " + paren(l) + " " + paren(r) + ")"
		}
	case token.AND_NOT:
		if kind == "uns" {
			return "(" + l + " &&& ~~~" + paren(r) + ")"
		}
	case token.LSS, token.LEQ, token.GTR, token.GEQ:
		if kind != "bool" {
			op := map[token.Token]string{token.LSS: "<", token.LEQ: "≤", token.GTR: ">", token.GEQ: "≥"}[x.Op]
			return "decide (" + l + " " + op + " " + r + ")"
		}
	case token.EQL:
		return "(" + l + " == " + r + ")"
	case token.NEQ:
		return "(" + l + " != " + r + ")"
	}
	c.fail(x, "operator %s on %s and %s", x.Op, lt, rt)
	return ""
}

// shift: `v << s`, `v >> s` for v of type int or uint / uint64.  A constant count gives a pure term; any other count
// goes through Go.shr… / Go.shl…, which panic for a negative count (a count of unsigned type never is).
func (c *ctx) shift(x *ast.BinaryExpr) string {
	lt, ct := c.typeOf(x.X), c.typeOf(x.Y)
	if !(isInt(lt) || isU64(lt)) || !(isInt(ct) || isUnsigned(ct)) {
		c.fail(x, "shift of %s by %s", lt, ct)
	}
	l := c.expr(x.X)
	right := x.Op == token.SHR
	if cv := c.t.info.Types[x.Y].Value; cv != nil && cv.Kind() == constant.Int {
		k, ok := constant.Int64Val(cv)
		if !ok || k < 0 {
			c.fail(x, "shift by the constant %s", cv)
		}
		switch {
		case isInt(lt):
			return fmt.Sprintf("(%s %s (%d : Nat))", paren(l), map[bool]string{true: ">>>", false: "<<<"}[right], k)
		case k >= 64:
			return "(0 : UInt64)"
		default:
			return fmt.Sprintf("(%s %s (%d : UInt64))", paren(l), map[bool]string{true: ">>>", false: "<<<"}[right], k)
		}
	}
	s := c.indexTerm(x.Y) // the count as an Int
	name := map[bool]string{true: "shr", false: "shl"}[right] + map[bool]string{true: "Int", false: "U64"}[isInt(lt)]
	return c.hoist("Go.%s %s %s", name, paren(l), paren(s))
}

func (c *ctx) composite(cl *ast.CompositeLit) string {
	ty := c.typeOf(cl)
	if sl, ok := ty.Underlying().(*types.Slice); ok {
		var es []string
		for _, el := range cl.Elts {
			if _, keyed := el.(*ast.KeyValueExpr); keyed {
				c.fail(el, "keyed slice literal")
			}
			es = append(es, c.expr(el))
		}
		return "(#[" + strings.Join(es, ", ") + "] : " + c.t.leanType(types.NewSlice(sl.Elem()), cl) + ")"
	}
	if ar, ok := ty.Underlying().(*types.Array); ok { // [N]T{…}: the listed elements, then zero values up to N
		var es []string
		for _, el := range cl.Elts {
			if _, keyed := el.(*ast.KeyValueExpr); keyed {
				c.fail(el, "keyed array literal")
			}
			es = append(es, c.value(el, false))
		}
		for int64(len(es)) < ar.Len() {
			es = append(es, c.t.zero(ar.Elem(), cl))
		}
		return "(#[" + strings.Join(es, ", ") + "] : " + c.t.leanType(ty, cl) + ")"
	}
	n := c.t.ownStruct(ty)
	if r, isPtr := c.t.record(ty); r != nil && !isPtr {
		n = r
	}
	if n == nil {
		c.fail(cl, "composite literal of type %s", ty)
	}
	st := n.Underlying().(*types.Struct)
	vals := map[string]string{}
	for i, el := range cl.Elts {
		if kv, ok := el.(*ast.KeyValueExpr); ok {
			name := kv.Key.(*ast.Ident).Name
			for j := 0; j < st.NumFields(); j++ {
				if st.Field(j).Name() == name {
					vals[name] = c.valueAs(kv.Value, true, st.Field(j).Type())
				}
			}
		} else {
			vals[st.Field(i).Name()] = c.valueAs(el, true, st.Field(i).Type())
		}
	}
	var fs []string
	for i := 0; i < st.NumFields(); i++ {
		f := st.Field(i)
		v, ok := vals[f.Name()]
		if !ok {
			v = c.t.zero(f.Type(), cl)
		}
		fs = append(fs, varName(f)+" := "+v)
	}
	return "({ " + strings.Join(fs, ", ") + " } : " + c.t.leanType(ty, cl) + ")"
}

// value translates an expression whose value is STORED somewhere (variable, field, result).  Storing an
// existing slice — or a struct / pointer to a struct of the package — a second time would create an alias; it is allowed
// only where the source is given up: `moved` (operands of a return statement, fields of a returned literal)
// AND the source is a local variable of the function, which dies at the return.
func (c *ctx) value(e ast.Expr, moved bool) string {
	ty := c.typeOf(e)
	if c.t.mentionsMutRec(ty) && !c.t.info.Types[e].IsNil() {
		// a MUTABLE record has exactly one owner — the slot its fresh literal was stored into.  Besides nil, only
		// fresh values may be stored; a slot may be read into a NEW local variable (a read-only borrow) in a
		// function during which nothing stores through such a pointer.
		switch x := ast.Unparen(e).(type) {
		case *ast.UnaryExpr:
			if _, isLit := ast.Unparen(x.X).(*ast.CompositeLit); !(x.Op == token.AND && isLit) {
				c.fail(e, "a pointer to a mutable record that is not a fresh literal")
			}
		case *ast.CompositeLit:
		case *ast.CallExpr:
			if c.builtin(x.Fun) != "make" && c.t.callee(x) == nil { // (what a translated function returns is fresh or moved)
				c.fail(e, "a value containing pointers to mutable records is copied (only make, nil, fresh literals and results of translated functions are stored)")
			}
		default:
			_, isSlot := x.(*ast.IndexExpr)
			if r, isPtr := c.t.record(ty); !(c.brw && isSlot && r != nil && isPtr) {
				c.fail(e, "a pointer to a mutable record is stored a second time (its slot owns it)")
			}
			if c.f.storesRec || c.loop != nil {
				c.fail(e, "a pointer to a mutable record is read into a variable in a function that (directly or in a callee) assigns through such pointers, or inside a loop")
			}
		}
	}
	if (isSlice(ty) || c.t.ownStruct(ty) != nil || isRand(ty)) && !flat(ty) {
		switch x := ast.Unparen(e).(type) {
		case *ast.Ident:
			if v := c.t.varOf(x); v != nil && !(moved && !c.isParam(v)) && !c.deadAfter(v) {
				c.fail(e, "aliasing: the slice, struct or generator %s is stored a second time", x.Name)
			}
		case *ast.SelectorExpr, *ast.SliceExpr, *ast.IndexExpr, *ast.StarExpr:
			if !(moved && c.lentResult(e)) {
				c.fail(e, "aliasing: an existing slice or struct is stored a second time")
			}
		}
	}
	return c.expr(e)
}

// lentResult: `return g.adj[v]` — the result is an ALIAS of storage of the receiver.  The translated function states
// the VALUE of the result at the moment of the return, and that statement is true whether or not the result shares
// storage with anything.  What sharing changes is what LATER code sees that holds both the result and the receiver;
// so the shape is accepted exactly when no translated function mentions this function (the alias can only reach
// untranslated callers: nothing in the generated file is a claim about code that runs after the return), the function
// does not itself write to the receiver or to a parameter, and the operand is a plain path of fields and elements of
// the receiver.  The generated doc comment says so.
func (c *ctx) lentResult(e ast.Expr) bool {
	if c.f.recv == nil || c.f.mutRecv || len(c.f.mutParam) > 0 || c.t.mentionsMutRec(c.typeOf(e)) || c.t.mentioned(c.f) {
		return false
	}
	for x := ast.Unparen(e); ; {
		switch y := x.(type) {
		case *ast.SelectorExpr:
			x = ast.Unparen(y.X)
		case *ast.IndexExpr:
			x = ast.Unparen(y.X)
		case *ast.Ident:
			if c.t.varOf(y) != c.f.recv {
				return false
			}
			c.f.lends = true
			return true
		default:
			return false
		}
	}
}

// mentioned: some translated function refers to g (calls it, or uses it as a function value).
func (t *translator) mentioned(g *fn) bool {
	found := false
	for _, h := range t.order {
		ast.Inspect(h.decl.Body, func(n ast.Node) bool {
			if id, ok := n.(*ast.Ident); ok {
				if f, _ := t.info.Uses[id].(*types.Func); f != nil && f.Origin() == g.obj.Origin() {
					found = true
				}
			}
			return !found
		})
	}
	return found
}

// flat: a type whose values contain no reference at all — basic types, and struct VALUES / arrays built from them (not
// through a pointer).  A Go assignment of such a value copies all of it, so storing it a second time shares nothing
// (`g.adj[v] = append(g.adj[v], e); g.adj[w] = append(g.adj[w], e)` for an edge struct e).
func flat(ty types.Type) bool {
	switch u := types.Unalias(ty).Underlying().(type) {
	case *types.Basic:
		return u.Kind() != types.UnsafePointer
	case *types.Struct:
		for i := 0; i < u.NumFields(); i++ {
			if !flat(u.Field(i).Type()) {
				return false
			}
		}
		return true
	case *types.Array:
		return flat(u.Elem())
	}
	return false
}

// deadAfter: v is a local variable (not a parameter) that the function never mentions after the statement being
// translated, and that statement is not inside a loop — so storing v somewhere MOVES it (`h.heap = newH`).
func (c *ctx) deadAfter(v *types.Var) bool {
	if c.cur == nil || c.loop != nil || c.isParam(v) {
		return false
	}
	dead := true
	ast.Inspect(c.f.decl.Body, func(n ast.Node) bool {
		if id, ok := n.(*ast.Ident); ok && id.Pos() >= c.cur.End() && c.t.info.Uses[id] == v {
			dead = false
		}
		return dead
	})
	return dead
}

// sliceValue: a slice expression s[lo:hi] (or a plain slice) used as the SOURCE of copy / append.
func (c *ctx) sliceValue(e ast.Expr) string {
	if c.t.mentionsMutRec(c.typeOf(e)) {
		c.fail(e, "copy / append of a slice of pointers to mutable records (two owners)")
	}
	x, ok := ast.Unparen(e).(*ast.SliceExpr)
	if !ok {
		return c.expr(e)
	}
	if x.Slice3 || !isSlice(c.typeOf(x.X)) {
		c.fail(e, "slice expression on %s", c.typeOf(x.X))
	}
	s := c.expr(x.X)
	lo, hi := "0", "("+paren(s)+".size : Int)"
	if x.Low != nil {
		lo = c.expr(x.Low)
	}
	if x.High != nil {
		hi = c.expr(x.High)
	}
	return c.hoist("Go.slice %s %s %s", paren(s), paren(lo), paren(hi))
}

// callTerm renders the call of a translated function: name [fuel] [receiver] arguments.
func (c *ctx) callTerm(call *ast.CallExpr, g *fn) string {
	parts := []string{g.name}
	parts = append(parts, c.typeArgs(call, g)...)
	if g.fuel {
		parts = append(parts, "fuel")
	}
	if g == c.f && c.loop != nil {
		// a recursive call inside a loop: the loop is a separate definition that precedes the function, so it receives
		// the function (already applied to its type arguments and the remaining fuel) as its parameter rec_
		parts = []string{"rec_"}
	}
	if g.recv != nil {
		sel, ok := ast.Unparen(call.Fun).(*ast.SelectorExpr)
		if !ok {
			c.fail(call, "method expression")
		}
		parts = append(parts, paren(c.expr(sel.X)))
	}
	// a slice the callee modifies must not reach it a second time (as another argument, or inside the
	// receiver): the callee would see its own stores through the other name, which values cannot express
	var modified, others []target
	if g.recv != nil {
		if r, ok := c.t.root(ast.Unparen(call.Fun).(*ast.SelectorExpr).X); ok {
			if g.mutRecv {
				modified = append(modified, r)
			} else {
				others = append(others, r)
			}
		}
	}
	for i, a := range call.Args {
		if i >= len(g.params) {
			break // further arguments of a variadic call: elements, not slices the callee could modify
		}
		if r, ok := c.t.root(a); ok && (isSlice(c.typeOf(a)) || isRand(c.typeOf(a))) {
			if g.mutParam[g.params[i]] {
				modified = append(modified, r)
			} else {
				others = append(others, r)
			}
		}
	}
	for i, m := range modified {
		for j, o := range append(append([]target{}, modified...), others...) {
			if i != j && m.v == o.v && (m.field == o.field || m.field == "" || o.field == "") {
				c.fail(call, "a slice or generator that %s modifies is passed to it twice (aliasing)", g.name)
			}
		}
	}
	nd := g.obj.Type().(*types.Signature).Params().Len()
	for i, a := range call.Args {
		if g.variadic && i >= nd-1 && !call.Ellipsis.IsValid() {
			break
		}
		parts = append(parts, paren(c.expr(a)))
	}
	if g.variadic && !call.Ellipsis.IsValid() { // f(a, b, c): the variadic parameter receives a fresh slice of the further arguments
		var es []string
		for _, a := range call.Args[nd-1:] {
			// (an object passed here is only read by the callee: it cannot assign to the elements of its variadic
			// parameter, modify a struct that is not its receiver, store an element anywhere, or call a modifying
			// method on the range variable that holds one — each of these is refused)
			es = append(es, c.expr(a))
		}
		parts = append(parts, "(#["+strings.Join(es, ", ")+"] : "+c.t.leanType(g.params[nd-1].Type(), call)+")")
	}
	if g.grand {
		parts = append(parts, "grand_")
	}
	return strings.Join(parts, " ")
}

// typeArgs: the instantiation of a generic callee, passed by name — `(T := Int)` — so that Lean does not have
// to infer it (the type parameters of a generic receiver, then the function's own).
func (c *ctx) typeArgs(call *ast.CallExpr, g *fn) []string {
	var out []string
	sig := g.obj.Type().(*types.Signature)
	if rtp := sig.RecvTypeParams(); rtp != nil && rtp.Len() > 0 {
		sel, _ := ast.Unparen(call.Fun).(*ast.SelectorExpr)
		var n *types.Named
		if sel != nil {
			n = c.t.ownStruct(c.typeOf(sel.X))
		}
		if n == nil || n.TypeArgs().Len() != rtp.Len() {
			c.fail(call, "cannot determine the type arguments of the receiver of %s", g.name)
		}
		for i := 0; i < rtp.Len(); i++ {
			out = append(out, fmt.Sprintf("(%s := %s)", rtp.At(i).Obj().Name(), c.t.leanType(n.TypeArgs().At(i), call)))
		}
	}
	if tp := sig.TypeParams(); tp != nil && tp.Len() > 0 {
		fun := ast.Unparen(call.Fun)
		switch x := fun.(type) {
		case *ast.IndexExpr:
			fun = x.X
		case *ast.IndexListExpr:
			fun = x.X
		}
		id, _ := fun.(*ast.Ident)
		if sel, ok := fun.(*ast.SelectorExpr); ok {
			id = sel.Sel
		}
		inst, ok := c.t.info.Instances[id]
		if id == nil || !ok || inst.TypeArgs.Len() != tp.Len() {
			c.fail(call, "cannot determine the type arguments of the call of %s", g.name)
		}
		for i := 0; i < tp.Len(); i++ {
			out = append(out, fmt.Sprintf("(%s := %s)", tp.At(i).Obj().Name(), c.t.leanType(inst.TypeArgs.At(i), call)))
		}
	}
	return out
}

func (c *ctx) callExpr(call *ast.CallExpr) string {
	if tv := c.t.info.Types[call.Fun]; tv.IsType() { // conversion between integer types
		if s, ok := constTerm(c.t.info.Types[call]); ok {
			return s
		}
		if len(call.Args) == 1 {
			to, from := tv.Type, c.typeOf(call.Args[0])
			a := c.expr(call.Args[0])
			switch {
			case isInt(to) && isInt(from), isU64(to) && isU64(from), isU8(to) && isU8(from), isString(to) && isString(from):
				return a
			case isInt(to) && isU8(from):
				return "(" + paren(a) + ".toNat : Int)"
			case isInt(to) && isU64(from): // the same 64 bits read in two's complement
				return "(" + paren(a) + ".toInt64.toInt)"
			case isU64(to) && isInt(from): // (wraps modulo 2^64)
				return "(UInt64.ofInt " + paren(a) + ")"
			case isU64(to) && isU8(from):
				return "(" + paren(a) + ".toUInt64)"
			case isU8(to) && isInt(from):
				return "(UInt8.ofInt " + paren(a) + ")"
			case isU8(to) && isU64(from):
				return "(" + paren(a) + ".toUInt8)"
			}
		}
		c.fail(call, "conversion to %s", tv.Type)
	}
	if x := c.t.randMethod(call); x != nil { // r.Intn(n): panics for n <= 0; advances r
		id, ok := ast.Unparen(x).(*ast.Ident)
		v := (*types.Var)(nil)
		if ok {
			v = c.t.varOf(id)
		}
		if v == nil || v.IsField() || v.Parent() == c.t.pkg.Scope() {
			c.fail(call, "Intn on something other than a local variable or parameter of type *rand.Rand")
		}
		if c.cond {
			c.fail(call, "Intn in the right operand of && / || (a conditional store)")
		}
		c.t.ident(id)
		n := c.expr(call.Args[0])
		tmp := c.hoist("Go.Rand.intn %s %s", varName(v), paren(n))
		c.w.emit("%s := %s.1", varName(v), tmp)
		return tmp + ".2"
	}
	if c.t.isGlobalIntn(call) { // rand.Intn(n): a draw from the package-level generator, threaded as `grand_`
		if c.cond {
			c.fail(call, "Intn in the right operand of && / || (a conditional store)")
		}
		n := c.expr(call.Args[0])
		tmp := c.hoist("Go.Rand.intn grand_ %s", paren(n))
		c.w.emit("grand_ := %s.1", tmp)
		return tmp + ".2"
	}
	if c.t.isRandNew(call) { // rand.New(rand.NewSource(<clock reading>)): a generator with an arbitrary stream
		seed := ast.Unparen(ast.Unparen(call.Args[0]).(*ast.CallExpr).Args[0])
		id, isId := seed.(*ast.Ident)
		if !(c.t.isClockRead(seed) || (isId && c.t.varOf(id) != nil && c.sh.clock[c.t.varOf(id)])) {
			c.fail(call, "rand.NewSource with a seed that is not a clock reading")
		}
		if c.loop != nil || c.cond {
			c.fail(call, "random generator created inside a loop or conditionally")
		}
		if !c.f.rng {
			panic("rand.New not seen by the analysis")
		}
		return "(Go.Rand.new rand_)"
	}
	switch c.builtin(call.Fun) {
	case "len":
		if isSlice(c.typeOf(call.Args[0])) {
			return "(" + paren(c.expr(call.Args[0])) + ".size : Int)"
		}
		if isString(c.typeOf(call.Args[0])) {
			return "(" + paren(c.expr(call.Args[0])) + ".length : Int)"
		}
		if a, ok := c.typeOf(call.Args[0]).Underlying().(*types.Array); ok {
			return fmt.Sprint(a.Len())
		}
		c.fail(call, "len of %s", c.typeOf(call.Args[0]))
	case "make":
		sl, ok := c.typeOf(call).Underlying().(*types.Slice)
		if !ok || len(call.Args) != 2 {
			c.fail(call, "make other than make([]T, n)")
		}
		return c.hoist("Go.make %s %s", paren(c.t.zero(sl.Elem(), call)), paren(c.expr(call.Args[1])))
	case "max", "min": // of integers: the larger / smaller operand (either one when they are equal)
		ty := c.typeOf(call)
		if !(isInt(ty) || isUnsigned(ty)) || len(call.Args) < 1 {
			c.fail(call, "%s of %s", c.builtin(call.Fun), ty)
		}
		cur := c.expr(call.Args[0])
		for _, a := range call.Args[1:] {
			y := c.expr(a)
			if c.builtin(call.Fun) == "max" {
				cur = "(if " + paren(cur) + " < " + paren(y) + " then " + y + " else " + cur + ")"
			} else {
				cur = "(if " + paren(y) + " < " + paren(cur) + " then " + y + " else " + cur + ")"
			}
		}
		return cur
	case "append":
		// append(literal, s...) : a FRESH slice made of a literal's elements followed by a copy of s
		if lit, ok := ast.Unparen(call.Args[0]).(*ast.CompositeLit); ok && len(call.Args) == 2 && call.Ellipsis.IsValid() {
			return "(" + c.composite(lit) + " ++ " + paren(c.sliceValue(call.Args[1])) + ")"
		}
		c.fail(call, "append (other than append([]T{…}, s...))")
	case "":
	default:
		c.fail(call, "builtin %s", c.builtin(call.Fun))
	}
	if g := c.t.callee(call); g != nil {
		if g.mutRecv || len(g.mutParam) > 0 || g.obj.Type().(*types.Signature).Results().Len() != 1 {
			c.fail(call, "call of %s inside an expression (it has several results or modifies its arguments)", g.name)
		}
		if g.effect {
			return c.hoist("%s", c.callTerm(call, g))
		}
		return "(" + c.callTerm(call, g) + ")"
	}
	// a function VALUE (parameter or field of function type): a pure total function
	if _, ok := c.typeOf(call.Fun).Underlying().(*types.Signature); ok {
		switch f := ast.Unparen(call.Fun).(type) {
		case *ast.Ident, *ast.SelectorExpr:
			if v, isVar := c.funcVar(f); isVar && v != nil {
				parts := []string{paren(c.expr(f))}
				for _, a := range call.Args {
					parts = append(parts, paren(c.expr(a)))
				}
				return "(" + strings.Join(parts, " ") + ")"
			}
		}
	}
	var b bytes.Buffer
	printer.Fprint(&b, c.t.fset, call.Fun)
	c.fail(call, "call of %s (not a translated function, not a function-typed parameter or field)", b.String())
	return ""
}

func (c *ctx) funcVar(e ast.Expr) (*types.Var, bool) {
	switch x := e.(type) {
	case *ast.Ident:
		v := c.t.varOf(x)
		return v, v != nil
	case *ast.SelectorExpr:
		v, ok := c.t.info.Uses[x.Sel].(*types.Var)
		return v, ok && v.IsField()
	}
	return nil, false
}

// ----------------------------------------------------------------------------------------- assignment

// step of an assignable path below its root variable
type step struct {
	field string // ".f"
	index string // "[i]" (a pure term, already evaluated)
	deref bool   // the field is reached through a pointer to a record (an Option): nil panics
}

// place evaluates the operands of an assignable expression now and returns how to store into it later.
func (c *ctx) place(l ast.Expr, define bool) func(val string) { return c.placeOf(l, define, false) }

// placeOf: elemsOnly = the stored value is the old slice with some elements replaced (the new value of a
// slice argument after a call, the destination of copy), which IS visible to the caller in Go.
func (c *ctx) placeOf(l ast.Expr, define, elemsOnly bool) func(val string) {
	if id, ok := l.(*ast.Ident); ok {
		if id.Name == "_" {
			return func(string) {}
		}
		c.t.ident(id)
		name := ""
		if v := c.t.varOf(id); v != nil {
			name = varName(v)
		}
		if def, isNew := c.t.info.Defs[id].(*types.Var); define && isNew && def != nil {
			if _, isPtr := types.Unalias(def.Type()).(*types.Pointer); isPtr && c.t.ownStruct(def.Type()) == nil && !c.isRecord(def.Type()) && !isRand(def.Type()) {
				c.fail(l, "local variable %s of pointer type %s", id.Name, def.Type())
			}
			ty := c.t.leanType(def.Type(), l)
			return func(val string) { c.w.emit("let mut %s : %s := %s", name, ty, val) }
		}
		v := c.t.varOf(id)
		if v == nil || v.Parent() == c.t.pkg.Scope() {
			c.fail(l, "assignment to %s", id.Name)
		}
		if isSlice(v.Type()) && c.isParam(v) && !elemsOnly {
			c.fail(l, "assignment to the slice parameter %s as a whole (invisible to the caller in Go)", id.Name)
		}
		return func(val string) { c.w.emit("%s := %s", name, val) }
	}
	var steps []step
	e := ast.Unparen(l)
	for {
		switch x := e.(type) {
		case *ast.SelectorExpr:
			if r, isPtr := c.t.record(c.typeOf(x.X)); r != nil && isPtr {
				// p.f = e through a pointer to a record: the record is owned by the slot p was read from (header)
				if _, isSlot := ast.Unparen(x.X).(*ast.IndexExpr); !isSlot {
					c.fail(l, "assignment through a pointer to a record that is not a slice element (`s[i].f = e`)")
				}
				steps = append([]step{{field: c.t.ident(x.Sel), deref: true}}, steps...)
				e = ast.Unparen(x.X)
				continue
			}
			if c.t.ownStruct(c.typeOf(x.X)) == nil {
				c.fail(l, "assignment through %s", c.typeOf(x.X))
			}
			steps = append([]step{{field: c.t.ident(x.Sel)}}, steps...)
			e = ast.Unparen(x.X)
			continue
		case *ast.IndexExpr:
			if !isSlice(c.typeOf(x.X)) && !isArray(c.typeOf(x.X)) {
				c.fail(l, "assignment to an element of %s", c.typeOf(x.X))
			}
			steps = append([]step{{index: ""}}, steps...)
			steps[0].index = "\x00" // placeholder; operands are evaluated left to right below
			e = ast.Unparen(x.X)
			continue
		}
		break
	}
	id, ok := e.(*ast.Ident)
	if !ok || c.t.varOf(id) == nil {
		c.fail(l, "assignment target %T", e)
	}
	if v := c.t.varOf(id); c.f.recv != nil && v == c.f.recv {
		if _, isPtr := types.Unalias(v.Type()).(*types.Pointer); !isPtr {
			c.fail(l, "a value receiver is modified (the caller keeps its copy but shares the slices)")
		}
	} else if c.t.ownStruct(v.Type()) != nil && c.isParam(v) {
		c.fail(l, "a struct parameter other than the receiver is modified")
	}
	// evaluate the index operands in source order (outermost container first = left to right)
	var idxExprs []ast.Expr
	var collect func(e ast.Expr)
	collect = func(e ast.Expr) {
		switch x := ast.Unparen(e).(type) {
		case *ast.SelectorExpr:
			collect(x.X)
		case *ast.IndexExpr:
			collect(x.X)
			idxExprs = append(idxExprs, x.Index)
		}
	}
	collect(l)
	k := 0
	for i := range steps {
		if steps[i].index != "" {
			steps[i].index = c.indexTerm(idxExprs[k])
			k++
		}
	}
	c.t.ident(id)
	root := varName(c.t.varOf(id))
	return func(val string) { c.w.emit("%s := %s", root, c.store(root, steps, val)) }
}

// store returns the term for `base` with the place `steps` below it replaced by val.
func (c *ctx) store(base string, steps []step, val string) string {
	if len(steps) == 0 {
		return val
	}
	s := steps[0]
	if s.deref {
		cur := c.hoist("Go.deref %s", paren(base))
		return "(some { " + cur + " with " + s.field + " := " + c.store(cur+"."+s.field, steps[1:], val) + " })"
	}
	if s.field != "" {
		return "{ " + base + " with " + s.field + " := " + c.store(paren(base)+"."+s.field, steps[1:], val) + " }"
	}
	inner := val
	if len(steps) > 1 {
		cur := c.hoist("Go.idx %s %s", paren(base), paren(s.index))
		inner = c.store(cur, steps[1:], val)
	}
	return c.hoist("Go.setIdx %s %s %s", paren(base), paren(s.index), paren(inner))
}

func (c *ctx) isParam(v *types.Var) bool {
	if v == c.f.recv {
		return true
	}
	for _, p := range c.f.params {
		if p == v {
			return true
		}
	}
	return false
}

// sameExpr: two assignable paths that are syntactically the same (identifiers resolved to the same variable).
func (c *ctx) sameExpr(a, b ast.Expr) bool {
	switch x := ast.Unparen(a).(type) {
	case *ast.Ident:
		y, ok := ast.Unparen(b).(*ast.Ident)
		return ok && c.t.varOf(x) != nil && c.t.varOf(x) == c.t.varOf(y)
	case *ast.SelectorExpr:
		y, ok := ast.Unparen(b).(*ast.SelectorExpr)
		return ok && x.Sel.Name == y.Sel.Name && c.sameExpr(x.X, y.X)
	case *ast.IndexExpr: // s[i] and s[i] for the same variable i
		y, ok := ast.Unparen(b).(*ast.IndexExpr)
		if !ok || !c.sameExpr(x.X, y.X) {
			return false
		}
		xi, ok1 := ast.Unparen(x.Index).(*ast.Ident)
		yi, ok2 := ast.Unparen(y.Index).(*ast.Ident)
		return ok1 && ok2 && c.t.varOf(xi) != nil && c.t.varOf(xi) == c.t.varOf(yi)
	}
	return false
}

// sameVar: e and f are the same variable.
func (c *ctx) sameVar(e, f ast.Expr) bool {
	x, okx := ast.Unparen(e).(*ast.Ident)
	y, oky := ast.Unparen(f).(*ast.Ident)
	return okx && oky && c.t.varOf(x) != nil && c.t.varOf(x) == c.t.varOf(y)
}

// isPlusOne: e is `v + 1` for the variable v that f is.
func (c *ctx) isPlusOne(e, f ast.Expr) bool {
	b, ok := ast.Unparen(e).(*ast.BinaryExpr)
	if !ok || b.Op != token.ADD {
		return false
	}
	one := c.t.info.Types[b.Y]
	x, okx := ast.Unparen(b.X).(*ast.Ident)
	y, oky := ast.Unparen(f).(*ast.Ident)
	return okx && oky && c.t.varOf(x) != nil && c.t.varOf(x) == c.t.varOf(y) && one.Value != nil && one.Value.ExactString() == "1"
}

var assignOps = map[token.Token]token.Token{token.ADD_ASSIGN: token.ADD, token.SUB_ASSIGN: token.SUB,
	token.MUL_ASSIGN: token.MUL, token.QUO_ASSIGN: token.QUO, token.REM_ASSIGN: token.REM,
	token.XOR_ASSIGN: token.XOR, token.AND_ASSIGN: token.AND, token.OR_ASSIGN: token.OR}

func (c *ctx) assign(s *ast.AssignStmt) {
	define := s.Tok == token.DEFINE
	if op, isOp := assignOps[s.Tok]; isOp { // x op= y  ≡  x = x op (y), x's operands evaluated once
		c.opAssign(s.Lhs[0], op, s.Rhs[0], s)
		return
	}
	if s.Tok != token.ASSIGN && !define {
		c.fail(s, "assignment operator %s", s.Tok)
	}
	if define && len(s.Rhs) == 1 && len(s.Lhs) == 1 && c.t.isClockRead(s.Rhs[0]) {
		// seed := time.Now().UTC().UnixNano(): reading the clock changes nothing; the value may only seed a generator
		id, _ := s.Lhs[0].(*ast.Ident)
		v, _ := c.t.info.Defs[id].(*types.Var)
		if id == nil || v == nil || c.loop != nil {
			c.fail(s, "clock reading that is not assigned to a new local variable outside any loop")
		}
		if c.sh.clock == nil {
			c.sh.clock = map[*types.Var]bool{}
		}
		c.sh.clock[v] = true
		return
	}
	if len(s.Rhs) == 1 && len(s.Lhs) == 1 {
		// x = append(x, v…): x grows in place.  No second reference to x's array exists in the subset, so
		// whether Go reallocates is unobservable.
		if call, ok := ast.Unparen(s.Rhs[0]).(*ast.CallExpr); ok && c.builtin(call.Fun) == "append" &&
			!call.Ellipsis.IsValid() && len(call.Args) >= 2 && !define && c.sameExpr(s.Lhs[0], call.Args[0]) {
			store := c.placeOf(s.Lhs[0], false, true)
			cur := c.expr(s.Lhs[0])
			for _, a := range call.Args[1:] {
				cur = "(" + paren(cur) + ".push " + paren(c.value(a, false)) + ")"
			}
			store(cur)
			return
		}
	}
	if len(s.Rhs) == 1 && len(s.Lhs) == 1 && !define {
		// x = append(x, s...): x grows in place by COPIES of the elements of s (s itself is only read).  As above no
		// second reference to x's array exists; the copied elements share nothing with those of s when the element
		// type is flat (no reference inside), and for an element type that is a type parameter the translated code has
		// no operation that could look inside an element, so sharing there is unobservable.
		if call, ok := ast.Unparen(s.Rhs[0]).(*ast.CallExpr); ok && c.builtin(call.Fun) == "append" && call.Ellipsis.IsValid() &&
			len(call.Args) == 2 && c.sameExpr(s.Lhs[0], call.Args[0]) && !c.sameExpr(call.Args[0], call.Args[1]) {
			if sl, isSl := types.Unalias(c.typeOf(call.Args[1])).Underlying().(*types.Slice); isSl {
				_, isTP := types.Unalias(sl.Elem()).(*types.TypeParam)
				if !flat(sl.Elem()) && !isTP {
					c.fail(call, "append(x, s...) for an element type %s that contains references (the copies would share them)", sl.Elem())
				}
				if _, isId := ast.Unparen(call.Args[0]).(*ast.Ident); isId {
					store := c.placeOf(s.Lhs[0], false, true)
					cur := c.expr(s.Lhs[0])
					store("(" + paren(cur) + " ++ " + paren(c.sliceValue(call.Args[1])) + ")")
					return
				}
			}
		}
	}
	if len(s.Rhs) == 1 && len(s.Lhs) == 1 && !define {
		// x = append(x[:i], x[i+1:]...): element i is removed in place.  Whatever the capacity, Go panics unless
		// 0 <= i and i+1 <= len(x) (x[i+1:] is checked against the LENGTH), and otherwise the result is x without its
		// i-th element; no second reference to x's array exists in the subset.
		if call, ok := ast.Unparen(s.Rhs[0]).(*ast.CallExpr); ok && c.builtin(call.Fun) == "append" && call.Ellipsis.IsValid() && len(call.Args) == 2 {
			a0, ok0 := ast.Unparen(call.Args[0]).(*ast.SliceExpr)
			a1, ok1 := ast.Unparen(call.Args[1]).(*ast.SliceExpr)
			if ok0 && ok1 && !a0.Slice3 && !a1.Slice3 && a0.Low == nil && a0.High != nil && a1.Low != nil && a1.High == nil &&
				c.sameExpr(s.Lhs[0], a0.X) && c.sameExpr(s.Lhs[0], a1.X) && c.isPlusOne(a1.Low, a0.High) {
				if c.t.mentionsMutRec(c.typeOf(s.Lhs[0])) {
					c.fail(s, "removal from a slice of pointers to mutable records")
				}
				store := c.placeOf(s.Lhs[0], false, true)
				x := c.expr(s.Lhs[0])
				i := c.expr(a0.High)
				t1 := c.hoist("Go.slice %s 0 %s", paren(x), paren(i))
				t2 := c.hoist("Go.slice %s (%s + 1) (%s.size : Int)", paren(x), i, paren(x))
				store("(" + t1 + " ++ " + t2 + ")")
				return
			}
		}
	}
	if len(s.Rhs) == 1 && len(s.Lhs) == 1 && !define {
		// x = append(x[:i], append([]T{v…}, x[i:]...)...): v… are inserted before position i.  The inner append builds a
		// FRESH slice [v…] ++ x[i:len] before the outer one writes anything, so nothing overlaps; whatever the capacity,
		// Go panics unless 0 <= i <= len(x) (x[i:] is checked against the LENGTH), and otherwise the result is
		// x[:i] ++ [v…] ++ x[i:]; no second reference to x's array exists in the subset.
		if call, ok := ast.Unparen(s.Rhs[0]).(*ast.CallExpr); ok && c.builtin(call.Fun) == "append" && call.Ellipsis.IsValid() && len(call.Args) == 2 {
			a0, ok0 := ast.Unparen(call.Args[0]).(*ast.SliceExpr)
			in, ok1 := ast.Unparen(call.Args[1]).(*ast.CallExpr)
			if ok0 && ok1 && c.builtin(in.Fun) == "append" && in.Ellipsis.IsValid() && len(in.Args) == 2 {
				lit, okl := ast.Unparen(in.Args[0]).(*ast.CompositeLit)
				a1, oks := ast.Unparen(in.Args[1]).(*ast.SliceExpr)
				if okl && oks && !a0.Slice3 && !a1.Slice3 && a0.Low == nil && a0.High != nil && a1.Low != nil && a1.High == nil &&
					c.sameExpr(s.Lhs[0], a0.X) && c.sameExpr(s.Lhs[0], a1.X) && c.sameVar(a0.High, a1.Low) {
					if c.t.mentionsMutRec(c.typeOf(s.Lhs[0])) {
						c.fail(s, "insertion into a slice of pointers to mutable records")
					}
					store := c.placeOf(s.Lhs[0], false, true)
					x := c.expr(s.Lhs[0])
					i := c.expr(a0.High)
					t1 := c.hoist("Go.slice %s 0 %s", paren(x), paren(i))
					mid := c.composite(lit)
					t2 := c.hoist("Go.slice %s %s (%s.size : Int)", paren(x), paren(i), paren(x))
					store("(" + t1 + " ++ (" + mid + " ++ " + t2 + "))")
					return
				}
			}
		}
	}
	if len(s.Rhs) == 1 {
		if call, ok := ast.Unparen(s.Rhs[0]).(*ast.CallExpr); ok {
			if g := c.t.callee(call); g != nil && (len(s.Lhs) > 1 || g.mutRecv || len(g.mutParam) > 0) {
				c.callStmt(call, g, s.Lhs, define)
				return
			}
		}
	}
	if len(s.Lhs) != len(s.Rhs) {
		c.fail(s, "assignment of a multi-valued expression that is not a call of a translated function")
	}
	// phase 1: operands of the left-hand sides, then the right-hand sides; phase 2: the stores, in order
	stores := make([]func(string), len(s.Lhs))
	for i, l := range s.Lhs {
		stores[i] = c.place(l, define)
	}
	vals := make([]string, len(s.Rhs))
	for i, r := range s.Rhs {
		if id, isId := s.Lhs[i].(*ast.Ident); isId && define && c.t.info.Defs[id] != nil {
			c.brw = true
		}
		vals[i] = c.valueAs(r, false, c.lhsType(s.Lhs[i]))
		c.brw = false
		if len(s.Rhs) > 1 && !isTmpName(vals[i]) { // simultaneous assignment: freeze the value
			tmp := c.fresh()
			c.w.emit("let %s : %s := %s", tmp, c.t.leanType(c.typeOf(r), r), vals[i])
			vals[i] = tmp
		}
	}
	for i := range stores {
		stores[i](vals[i])
	}
}

func (c *ctx) opAssign(lhs ast.Expr, op token.Token, rhs ast.Expr, at ast.Node) {
	bitOp := op == token.XOR || op == token.AND || op == token.OR
	if !(isInt(c.typeOf(lhs)) && !bitOp) && !(isUnsigned(c.typeOf(lhs)) && (op == token.ADD || op == token.SUB || op == token.MUL || bitOp)) {
		c.fail(at, "operator assignment %s= on %s", op, c.typeOf(lhs))
	}
	// Go evaluates the operands of lhs once; we evaluate them for the store and again (same pure terms)
	// for the read, which is unobservable because they are pure after hoisting.
	store := c.place(lhs, false)
	var r string
	if rhs == nil {
		r = "1"
	} else {
		r = c.expr(rhs)
	}
	cur := c.expr(lhs)
	switch op {
	case token.QUO, token.REM:
		name := map[token.Token]string{token.QUO: "div", token.REM: "mod"}[op]
		if rhs != nil && c.t.nonZeroConst(rhs) {
			store("(Int.t" + name + " " + paren(cur) + " " + paren(r) + ")")
		} else {
			store(c.hoist("Go.%s %s %s", name, paren(cur), paren(r)))
		}
	case token.XOR, token.AND, token.OR: // unsigned words only (checked above): x ^= y is x = x ^ (y)
		store("(" + cur + " " + map[token.Token]string{token.AND: "&&&", token.OR: "|||", token.XOR: "^^^"}[op] + " " + paren(r) + ")")
	default:
		store("(" + cur + " " + op.String() + " " + r + ")")
	}
}

// callStmt: a call of a translated function as a statement or as the sole right-hand side.  The result
// tuple is (new receiver, new values of the modified slice arguments, declared results).
func (c *ctx) callStmt(call *ast.CallExpr, g *fn, lhs []ast.Expr, define bool) {
	nres := g.obj.Type().(*types.Signature).Results().Len()
	if lhs != nil && len(lhs) != nres {
		c.fail(call, "call of %s: %d results assigned to %d places", g.name, nres, len(lhs))
	}
	var outs []ast.Expr // where each component of the result tuple goes (nil = dropped)
	if g.mutRecv {
		outs = append(outs, ast.Unparen(call.Fun).(*ast.SelectorExpr).X)
	}
	for i, p := range g.params {
		if g.mutParam[p] {
			if p == c.t.grand {
				outs = append(outs, c.t.grandId)
			} else {
				outs = append(outs, call.Args[i])
			}
		}
	}
	nmut := len(outs)
	for i := 0; i < nres; i++ {
		if lhs == nil {
			outs = append(outs, nil)
		} else {
			outs = append(outs, lhs[i])
		}
	}
	arrow := "←"
	if !g.effect {
		arrow = ":="
	}
	if len(outs) == 0 {
		if g.effect {
			c.w.emit("%s", c.callTerm(call, g)) // only its panics / divergence matter
		}
		return
	}
	// simple shapes first: everything new or dropped / a single existing variable
	allNew, pats := true, make([]string, len(outs))
	for i, o := range outs {
		id, isId := o.(*ast.Ident)
		switch {
		case o == nil || (isId && id.Name == "_"):
			pats[i] = "_"
		case isId && i >= nmut && define && c.t.info.Defs[id] != nil:
			if dt := c.t.info.Defs[id].Type(); c.t.ownStruct(dt) == nil && !c.isRecord(dt) {
				if _, isPtr := types.Unalias(dt).(*types.Pointer); isPtr {
					c.fail(o, "local variable %s of pointer type", id.Name)
				}
			}
			c.t.ident(id)
			pats[i] = varName(c.t.varOf(id))
		default:
			allNew = false
		}
	}
	term := func() string { return c.callTerm(call, g) }
	if allNew {
		if len(pats) == 1 && pats[0] != "_" {
			c.w.emit("let mut %s : %s %s %s", pats[0], c.t.leanType(c.t.info.Defs[outs[0].(*ast.Ident)].Type(), call), arrow, term())
		} else {
			c.w.emit("let mut %s %s %s", tuple(pats), arrow, term())
		}
		return
	}
	stores := make([]func(string), len(outs))
	for i, o := range outs {
		if o != nil {
			stores[i] = c.placeOf(o, define && i >= nmut, i < nmut)
		}
	}
	tmps := make([]string, len(outs))
	for i := range outs {
		tmps[i] = "_"
		if stores[i] != nil {
			if id, isId := outs[i].(*ast.Ident); !isId || id.Name != "_" {
				tmps[i] = c.fresh()
			}
		}
	}
	c.w.emit("let %s %s %s", tuple(tmps), arrow, term())
	for i := range outs {
		if tmps[i] != "_" {
			stores[i](tmps[i])
		}
	}
}

// ----------------------------------------------------------------------------------------- statements

// retTuple: what a `return r1, …` of the function being translated yields.
func (c *ctx) retTuple(results []string) string {
	var parts []string
	if c.f.mutRecv {
		parts = append(parts, varName(c.f.recv))
	}
	for _, p := range c.f.params {
		if c.f.mutParam[p] {
			parts = append(parts, varName(p))
		}
	}
	return tuple(append(parts, results...))
}

func (c *ctx) emitReturn(results []string) {
	if c.loop != nil {
		if !c.loop.hasRet {
			panic("return in a loop that was not analysed as returning")
		}
		c.w.emit("return (.ret %s)", c.retTuple(results))
		return
	}
	c.w.emit("return %s", c.retTuple(results))
}

// block translates a statement list at the current indentation; reports whether control cannot fall
// out of its end (it ends in return / break / continue on every path).
func (c *ctx) block(stmts []ast.Stmt) bool {
	n := len(c.w.lines)
	term := false
	for _, s := range stmts {
		if term {
			c.fail(s, "unreachable statement")
		}
		term = c.stmt(s)
	}
	if len(c.w.lines) == n {
		c.w.emit("pure ()")
	}
	return term
}

func (c *ctx) nested(body func() bool) bool {
	c.w.ind++
	defer func() { c.w.ind-- }()
	return body()
}

func (c *ctx) stmt(s ast.Stmt) bool {
	switch s.(type) {
	case *ast.AssignStmt, *ast.DeclStmt, *ast.ReturnStmt, *ast.ExprStmt, *ast.IncDecStmt:
		c.cur = s
	}
	switch x := s.(type) {
	case *ast.EmptyStmt:
		return false
	case *ast.AssignStmt:
		c.assign(x)
	case *ast.IncDecStmt:
		c.opAssign(x.X, map[token.Token]token.Token{token.INC: token.ADD, token.DEC: token.SUB}[x.Tok], nil, x)
	case *ast.ExprStmt:
		call, ok := ast.Unparen(x.X).(*ast.CallExpr)
		if !ok {
			c.fail(s, "expression statement %T", x.X)
		}
		if g := c.t.callee(call); g != nil {
			c.callStmt(call, g, nil, false)
		} else if c.builtin(call.Fun) == "copy" {
			c.copyStmt(call)
		} else {
			c.expr(call) // fails loudly unless it is a pure function value, whose call is then dropped
		}
	case *ast.DeclStmt:
		gd, ok := x.Decl.(*ast.GenDecl)
		if ok && gd.Tok == token.CONST {
			return false // a local constant is folded into its uses (constTerm)
		}
		if !ok || gd.Tok != token.VAR {
			c.fail(s, "declaration other than var or const")
		}
		for _, sp := range gd.Specs {
			vs := sp.(*ast.ValueSpec)
			if len(vs.Values) != 0 && len(vs.Values) != len(vs.Names) {
				c.fail(s, "var with a multi-valued initialiser")
			}
			vals := make([]string, len(vs.Names))
			for i, id := range vs.Names {
				ty := c.t.info.Defs[id].Type()
				if len(vs.Values) == 0 {
					vals[i] = c.t.zero(ty, id)
				} else if vals[i] = c.value(vs.Values[i], false); len(vs.Names) > 1 && !isTmpName(vals[i]) {
					tmp := c.fresh()
					c.w.emit("let %s : %s := %s", tmp, c.t.leanType(ty, id), vals[i])
					vals[i] = tmp
				}
			}
			for i, id := range vs.Names {
				if id.Name != "_" {
					c.place(id, true)(vals[i])
				}
			}
		}
	case *ast.BlockStmt:
		c.w.emit("do")
		return c.nested(func() bool { return c.block(x.List) })
	case *ast.IfStmt:
		if x.Init != nil { // the init statement's variables are scoped to the if
			c.w.emit("do")
			return c.nested(func() bool { c.stmt(x.Init); return c.ifStmt(x) })
		}
		return c.ifStmt(x)
	case *ast.SwitchStmt:
		if x.Init != nil {
			c.fail(s, "switch with an init statement")
		}
		if x.Tag != nil {
			// switch tag { case e1: … case e2: … default: … } on an int: the tag is evaluated once, then the case
			// expressions in order, each only if no earlier one was equal (Go spec, "Expression switches") — an if-chain.
			if !isInt(c.typeOf(x.Tag)) {
				c.fail(s, "switch on a tag of type %s", c.typeOf(x.Tag))
			}
			tag := c.fresh()
			c.w.emit("let %s : Int := %s", tag, c.expr(x.Tag))
			return c.switchCases(x.Body.List, tag)
		}
		return c.switchCases(x.Body.List, "")
	case *ast.ReturnStmt:
		sig := c.f.obj.Type().(*types.Signature)
		if len(x.Results) == 0 && sig.Results().Len() > 0 {
			c.fail(s, "bare return with named results")
		}
		if len(x.Results) == 1 && sig.Results().Len() > 1 {
			call, ok := ast.Unparen(x.Results[0]).(*ast.CallExpr)
			g := (*fn)(nil)
			if ok {
				g = c.t.callee(call)
			}
			if g == nil || g.mutRecv || len(g.mutParam) > 0 {
				c.fail(s, "return of a multi-valued expression")
			}
			tmps := make([]string, sig.Results().Len())
			for i := range tmps {
				tmps[i] = c.fresh()
			}
			if g.effect {
				c.w.emit("let %s ← %s", tuple(tmps), c.callTerm(call, g))
			} else {
				c.w.emit("let %s := %s", tuple(tmps), c.callTerm(call, g))
			}
			c.emitReturn(tmps)
			return true
		}
		var rs []string
		for i, r := range x.Results {
			rs = append(rs, c.valueAs(r, true, sig.Results().At(i).Type()))
		}
		c.emitReturn(rs)
		return true
	case *ast.BranchStmt:
		if x.Label != nil || c.loop == nil {
			c.fail(s, "%s with a label or outside a loop", x.Tok)
		}
		switch x.Tok {
		case token.BREAK:
			if c.loop.inSwitch {
				c.fail(s, "break inside a switch")
			}
			c.w.emit("%s", c.loop.exit)
		case token.CONTINUE:
			c.loop.cont(c)
		default:
			c.fail(s, "%s", x.Tok)
		}
		return true
	case *ast.ForStmt:
		c.loopStmt(x, x.Init, x.Cond, x.Post, x.Body)
		return x.Cond == nil && !hasBreak(x.Body) // `for { … }` without break: control never falls out of it
	case *ast.RangeStmt:
		c.loopStmt(x, nil, nil, nil, x.Body)
	default:
		c.fail(s, "statement %T", s)
	}
	return false
}

func (c *ctx) ifStmt(x *ast.IfStmt) bool {
	cond := c.expr(x.Cond)
	c.w.emit("if %s then", cond)
	t1 := c.nested(func() bool { return c.block(x.Body.List) })
	if x.Else == nil {
		return false
	}
	c.w.emit("else")
	t2 := c.nested(func() bool {
		if b, ok := x.Else.(*ast.BlockStmt); ok {
			return c.block(b.List)
		}
		return c.stmt(x.Else)
	})
	return t1 && t2
}

// switchCases: `switch { case a: A; case b: B; default: D }` as `if a then A else (if b then B else D)`;
// each condition is evaluated only when the previous ones were false.
func (c *ctx) switchCases(cases []ast.Stmt, tag string) bool {
	if len(cases) == 0 {
		return false
	}
	cc := cases[0].(*ast.CaseClause)
	inner := *c
	if c.loop != nil {
		l := *c.loop
		l.inSwitch = true
		inner.loop = &l
	}
	body := func() bool {
		for _, s := range cc.Body {
			if b, ok := s.(*ast.BranchStmt); ok && b.Tok == token.FALLTHROUGH {
				c.fail(s, "fallthrough")
			}
		}
		return inner.block(cc.Body)
	}
	if cc.List == nil { // default
		if len(cases) != 1 {
			c.fail(cc, "default clause that is not the last clause")
		}
		return body()
	}
	if len(cc.List) != 1 {
		c.fail(cc, "case with several expressions")
	}
	if tag != "" {
		if !isInt(c.typeOf(cc.List[0])) {
			c.fail(cc, "case expression of type %s", c.typeOf(cc.List[0]))
		}
		c.w.emit("if (%s == %s) then", tag, c.expr(cc.List[0]))
	} else {
		c.w.emit("if %s then", c.expr(cc.List[0]))
	}
	t1 := c.nested(body)
	if len(cases) == 1 {
		return false
	}
	c.w.emit("else")
	t2 := c.nested(func() bool { return c.switchCases(cases[1:], tag) })
	return t1 && t2
}

// copyStmt: copy(dst, src) and copy(dst[lo:hi], src) where dst is an assignable slice.
func (c *ctx) copyStmt(call *ast.CallExpr) {
	dst, src := ast.Unparen(call.Args[0]), call.Args[1]
	if r1, ok1 := c.t.root(dst); ok1 {
		if r2, ok2 := c.t.root(src); ok2 && r1.v == r2.v && r1.field == r2.field {
			c.fail(call, "copy between overlapping parts of one slice")
		}
	}
	if sl, ok := dst.(*ast.SliceExpr); ok {
		if sl.Slice3 || !isSlice(c.typeOf(sl.X)) {
			c.fail(call, "copy into %s", c.typeOf(sl.X))
		}
		store := c.placeOf(sl.X, false, true)
		d := c.expr(sl.X)
		lo, hi := "0", "("+paren(d)+".size : Int)"
		if sl.Low != nil {
			lo = c.expr(sl.Low)
		}
		if sl.High != nil {
			hi = c.expr(sl.High)
		}
		s := c.sliceValue(src)
		store(c.hoist("Go.copyInto %s %s %s %s", paren(d), paren(lo), paren(hi), paren(s)))
		return
	}
	store := c.placeOf(dst, false, true)
	d := c.expr(dst)
	s := c.sliceValue(src)
	store("(Go.copy " + paren(d) + " " + paren(s) + ")")
}

// ---------------------------------------------------------------------------------------------- loops

// loopVars: the variables declared outside the loop that it mentions, split into those it assigns
// (state, in declaration order) and the others (captured).
func (c *ctx) loopVars(loop ast.Stmt, parts []ast.Node) (state, captured []*types.Var) {
	assigned := map[*types.Var]bool{}
	for _, p := range parts {
		for _, tg := range c.t.targets(p) {
			assigned[tg.v] = true
		}
	}
	seen := map[*types.Var]bool{}
	for _, p := range parts {
		ast.Inspect(p, func(n ast.Node) bool {
			id, ok := n.(*ast.Ident)
			if !ok {
				return true
			}
			v, _ := c.t.info.Uses[id].(*types.Var)
			if v == nil || v.IsField() || seen[v] {
				return true
			}
			if v.Parent() == c.t.pkg.Scope() {
				c.fail(id, "package-level variable %s", id.Name)
			}
			if v.Pos() >= loop.Pos() && v.Pos() < loop.End() {
				return true // declared inside the loop
			}
			seen[v] = true
			if assigned[v] {
				state = append(state, v)
			} else {
				captured = append(captured, v)
			}
			return true
		})
	}
	byPos := func(vs []*types.Var) {
		sort.SliceStable(vs, func(i, j int) bool { return vs[i].Pos() < vs[j].Pos() })
	}
	byPos(state)
	byPos(captured)
	if c.t.grand != nil && assigned[c.t.grand] { // the package-level generator (no identifier in the source mentions it)
		state = append(state, c.t.grand)
	}
	for _, vs := range [][]*types.Var{state, captured} {
		for i, v := range vs {
			for _, w := range vs[:i] {
				if w.Name() == v.Name() {
					c.fail(loop, "two variables named %s are live in one loop (shadowing)", v.Name())
				}
			}
		}
	}
	return
}

// isNumeral: a term made of integer literals and arithmetic only (no variable gives it the type Int)
func isNumeral(s string) bool {
	digits := false
	for _, c := range s {
		switch {
		case c >= '0' && c <= '9':
			digits = true
		case strings.ContainsRune("()+-* ", c):
		default:
			return false
		}
	}
	return digits
}

// callsSelf: the statement contains a call of the function being translated.
func (c *ctx) callsSelf(n ast.Node) bool {
	found := false
	ast.Inspect(n, func(n ast.Node) bool {
		if call, ok := n.(*ast.CallExpr); ok && c.t.callee(call) == c.f {
			found = true
		}
		return !found
	})
	return found
}

// recType: the type of the function applied to its type arguments and its fuel — what a loop containing a recursive
// call receives as rec_.
func (g *fn) recType(t *translator) string {
	var parts []string
	all := g.params
	if g.recv != nil {
		all = append([]*types.Var{g.recv}, g.params...)
	}
	for _, p := range all {
		parts = append(parts, paren(t.leanType(p.Type(), g.decl)))
	}
	return strings.Join(append(parts, "Outcome "+paren(g.resultType(t))), " → ")
}

// hasBreak: the loop body contains a break that leaves THIS loop (breaks of nested loops do not count; break inside
// a switch is refused elsewhere).
func hasBreak(body *ast.BlockStmt) bool {
	found := false
	ast.Inspect(body, func(n ast.Node) bool {
		switch x := n.(type) {
		case *ast.ForStmt, *ast.RangeStmt, *ast.FuncLit:
			return false
		case *ast.BranchStmt:
			if x.Tok == token.BREAK {
				found = true
			}
		}
		return !found
	})
	return found
}

func hasReturn(n ast.Node) bool {
	found := false
	ast.Inspect(n, func(n ast.Node) bool {
		if _, ok := n.(*ast.ReturnStmt); ok {
			found = true
		}
		return !found
	})
	return found
}

func (c *ctx) loopStmt(loop ast.Stmt, init ast.Stmt, cond ast.Expr, post ast.Stmt, body *ast.BlockStmt) {
	t := c.t
	cl := t.counted[loop]
	c.sh.loopN++
	loopNo := c.sh.loopN
	name := fmt.Sprintf("%s.loop%d", c.f.name, loopNo)

	// variables local to the loop header (general loops: `for j := i; …`), with their start values
	var headVars []*types.Var
	var headVals []string
	parts := []ast.Node{body}
	if cl == nil {
		if cond != nil {
			parts = append(parts, cond)
		}
		if post != nil {
			parts = append(parts, post)
		}
		switch in := init.(type) {
		case nil:
		case *ast.AssignStmt:
			if in.Tok != token.DEFINE {
				c.stmt(in) // assigns to outer variables: an ordinary statement before the loop
				break
			}
			if len(in.Rhs) == 1 {
				// `for i := next(); …` where the call modifies its receiver / arguments: the initialiser runs exactly once,
				// before the first test, so it is an ordinary statement in front of the loop; its variables enter the loop
				// as state with the values it gave them (they are declared in the enclosing `do` block: Lean's shadowing
				// keeps a later variable of the same name apart, as Go's scoping does)
				if call, isCall := ast.Unparen(in.Rhs[0]).(*ast.CallExpr); isCall {
					if g := t.callee(call); g != nil && (g.mutRecv || len(g.mutParam) > 0 || g.grand) {
						c.stmt(in)
						for _, l := range in.Lhs {
							v, _ := t.info.Defs[l.(*ast.Ident)].(*types.Var)
							if v == nil {
								c.fail(in, "loop initialiser := that redeclares %s", l.(*ast.Ident).Name)
							}
							headVars = append(headVars, v)
							headVals = append(headVals, varName(v))
						}
						break
					}
				}
			}
			if len(in.Lhs) != len(in.Rhs) {
				c.fail(in, "loop initialiser with a multi-valued expression")
			}
			for i, l := range in.Lhs {
				id := l.(*ast.Ident)
				v, _ := t.info.Defs[id].(*types.Var)
				if v == nil {
					c.fail(in, "loop initialiser := that redeclares %s", id.Name)
				}
				headVars = append(headVars, v)
				headVals = append(headVals, c.value(in.Rhs[i], false))
			}
		case *ast.IncDecStmt, *ast.ExprStmt:
			c.stmt(in) // `for i++; …`: an ordinary statement before the loop
		default:
			c.fail(init, "loop initialiser %T", init)
		}
	} else if cl.rng != nil && cl.rngVal != nil {
		parts = append(parts, cl.rng)
	}
	state, captured := c.loopVars(loop, parts)
	ret := hasReturn(body)

	// ---- the loop's own definition
	names := func(vs []*types.Var) (out []string) {
		for _, v := range vs {
			out = append(out, varName(v))
		}
		return
	}
	tys := func(vs []*types.Var) (out []string) {
		for _, v := range vs {
			out = append(out, t.leanType(v.Type(), loop))
		}
		return
	}
	stateTuple := tuple(names(state))
	stateType := prodType(tys(state))
	resType := stateType
	next := func(s string) string { return s }
	if ret {
		resType = "Go.Ctl " + paren(stateType) + " " + paren(c.f.resultType(t))
		next = func(s string) string { return "(.next " + s + ")" }
	}
	head := "def " + name + " " + c.f.typeBinders()
	if c.f.fuel {
		head += "(fuel : Nat) "
	}
	needsRec := c.f.recursive && c.callsSelf(loop)
	if needsRec {
		head += "(rec_ : " + c.f.recType(t) + ") "
	}
	for _, v := range captured {
		head += fmt.Sprintf("(%s : %s) ", varName(v), t.leanType(v.Type(), loop))
	}
	w := &writer{}
	var argTys, argNames []string
	if cl != nil {
		argTys, argNames = append(argTys, "Int"), append(argNames, "i_")
		if cl.v != nil {
			argNames[0] = varName(cl.v)
		}
	}
	argTys, argNames = append(argTys, tys(headVars)...), append(argNames, names(headVars)...)
	argTys, argNames = append(argTys, tys(state)...), append(argNames, names(state)...)
	sig := "Nat"
	for _, a := range argTys {
		sig += " → " + paren(a)
	}
	w.emit("%s: %s → Outcome %s", head, sig, paren(resType))
	pat := strings.Join(append([]string{""}, argNames...), ", ")
	if cl != nil {
		w.emit("  | 0%s => pure %s", pat, next(stateTuple))
	} else {
		w.emit("  | 0%s => .diverge", pat)
	}
	w.emit("  | k_+1%s => do", pat)
	w.ind = 2
	d := c.sub(w)
	self := name + c.f.typeArgsSelf()
	if c.f.fuel {
		self += " fuel"
	}
	if needsRec {
		self += " rec_"
	}
	for _, v := range captured {
		self += " " + varName(v)
	}
	self += " k_"
	again := func(e *ctx) {
		if cl != nil {
			idx := "(i_ + 1)"
			if cl.v != nil {
				idx = "(" + varName(cl.v) + map[bool]string{false: " + 1)", true: " - 1)"}[cl.down]
			}
			e.w.emit("%s", strings.Join(append([]string{self, idx}, names(state)...), " "))
			return
		}
		if post != nil {
			e.stmt(post)
		}
		e.w.emit("%s", strings.Join(append(append([]string{self}, names(headVars)...), names(state)...), " "))
	}
	d.loop = &loopCtx{exit: "return " + next(stateTuple), hasRet: ret, cont: func(e *ctx) {
		// `continue`: the rest of this iteration is skipped; what the recursive call yields is the loop's result
		sw := &writer{ind: e.w.ind}
		f := e.sub(sw)
		again(f)
		last := len(sw.lines) - 1
		sw.lines[last] = strings.Repeat("  ", sw.ind) + "return (← " + strings.TrimSpace(sw.lines[last]) + ")"
		e.w.lines = append(e.w.lines, sw.lines...)
	}}
	for _, v := range append(append([]*types.Var{}, headVars...), state...) {
		w.emit("let mut %s := %s", varName(v), varName(v))
	}
	if cl != nil && cl.rngVal != nil {
		w.emit("let %s ← Go.idx %s %s", varName(cl.rngVal), paren(d.expr(cl.rng)), argNames[0])
	}
	if cl == nil && cond != nil {
		w.emit("if !%s then", paren(d.expr(cond)))
		w.emit("  %s", d.loop.exit)
	}
	if !d.block(body.List) {
		again(d)
	}
	c.sh.defs = append(c.sh.defs, fmt.Sprintf("/-- loop %d of `%s` -/\n%s", loopNo, c.f.name, w.String()))

	// ---- the call in the enclosing body
	call := name + c.f.typeArgsSelf()
	if c.f.fuel {
		call += " fuel"
	}
	if needsRec {
		if c.loop != nil {
			call += " rec_"
		} else {
			call += " (" + c.f.name + c.f.typeArgsSelf() + " fuel)"
		}
	}
	for _, v := range captured {
		call += " " + varName(v)
	}
	switch {
	case cl == nil:
		call += " fuel"
	case cl.rng != nil:
		if isSlice(c.typeOf(cl.rng)) {
			call += " " + paren(c.expr(cl.rng)) + ".size 0"
		} else {
			call += " " + paren(c.expr(cl.rng)) + ".toNat 0"
		}
	default:
		lo, hi := c.expr(cl.lo), c.expr(cl.hi)
		count := "(" + hi + " - " + lo + ")"
		if cl.incl {
			count = "(" + hi + " + 1 - " + lo + ")"
		}
		if isNumeral(lo) && isNumeral(hi) { // two literals would be elaborated as natural numbers
			count = "(" + count[1:len(count)-1] + " : Int)"
		}
		call += " " + count + ".toNat " + paren(map[bool]string{false: lo, true: hi}[cl.down])
	}
	for _, v := range headVals {
		call += " " + paren(v)
	}
	for _, v := range state {
		call += " " + varName(v)
	}
	switch {
	case cl == nil && cond == nil && !hasBreak(body):
		// a loop without a condition and without break ends only by `return` (or never): after it nothing is reachable
		if !ret {
			c.fail(loop, "loop without condition, break or return")
		}
		c.w.emit("match ← %s with", call)
		if c.loop != nil {
			c.w.emit("| .ret r_ => return (.ret r_)")
		} else {
			c.w.emit("| .ret r_ => return r_")
		}
		c.w.emit("| .next _ => Outcome.diverge")
	case ret:
		c.w.emit("match ← %s with", call)
		if c.loop != nil {
			c.w.emit("| .ret r_ => return (.ret r_)")
		} else {
			c.w.emit("| .ret r_ => return r_")
		}
		if len(state) == 0 {
			c.w.emit("| .next _ => pure ()")
		} else {
			c.w.emit("| .next s_ => %s := s_", stateTuple)
		}
	case len(state) == 0:
		c.w.emit("%s", call)
	default:
		c.w.emit("%s ← %s", stateTuple, call)
	}
}

// ------------------------------------------------------------------------------------------ functions

func (g *fn) typeBinders() string {
	sig := g.obj.Type().(*types.Signature)
	return typeParamBinders(sig.RecvTypeParams()) + typeParamBinders(sig.TypeParams())
}

// typeArgsSelf: ` (T := T)` for each type parameter in scope — how a loop of a generic function is called
// from that function (a loop need not mention T in its signature, so Lean could not infer it).
func (g *fn) typeArgsSelf() string {
	sig := g.obj.Type().(*types.Signature)
	s := ""
	for _, l := range []*types.TypeParamList{sig.RecvTypeParams(), sig.TypeParams()} {
		for i := 0; l != nil && i < l.Len(); i++ {
			s += fmt.Sprintf(" (%s := %s)", l.At(i).Obj().Name(), l.At(i).Obj().Name())
		}
	}
	return s
}

// resultTypes: the declared results; an interface-typed result of a constructor whose every return
// gives `&S{…}` is S.
func (g *fn) resultTypes(t *translator) []string {
	sig := g.obj.Type().(*types.Signature)
	var out []string
	for i := 0; i < sig.Results().Len(); i++ {
		ty := sig.Results().At(i).Type()
		if _, isIface := ty.Underlying().(*types.Interface); isIface {
			if _, isTP := types.Unalias(ty).(*types.TypeParam); !isTP {
				var found types.Type
				ast.Inspect(g.decl.Body, func(n ast.Node) bool {
					if r, ok := n.(*ast.ReturnStmt); ok && i < len(r.Results) {
						rt := t.info.Types[r.Results[i]].Type
						u, isAddr := ast.Unparen(r.Results[i]).(*ast.UnaryExpr)
						fresh := isAddr && u.Op == token.AND
						if id, isId := ast.Unparen(r.Results[i]).(*ast.Ident); isId {
							// a LOCAL variable of type *S (it can only hold a fresh `&S{…}` or the result of a constructor)
							if v := t.varOf(id); v != nil && v.Parent() != t.pkg.Scope() && v != g.recv {
								isP := false
								for _, p := range g.params {
									isP = isP || p == v
								}
								fresh = !isP
							}
						}
						if !fresh || t.ownStruct(rt) == nil || (found != nil && !types.Identical(found, rt)) {
							t.fail(r, "interface-typed result that is not `&S{…}` (or a local variable holding one) of one struct type S")
						}
						found = rt
					}
					return true
				})
				if found == nil {
					t.fail(g.decl, "interface-typed result")
				}
				ty = found
			}
		}
		out = append(out, t.leanType(ty, g.decl))
	}
	return out
}

// resultType: (receiver if modified, modified slice parameters, results)
func (g *fn) resultType(t *translator) string {
	var parts []string
	if g.mutRecv {
		parts = append(parts, t.leanType(g.recv.Type(), g.decl))
	}
	for _, p := range g.params {
		if g.mutParam[p] {
			parts = append(parts, t.leanType(p.Type(), g.decl))
		}
	}
	return prodType(append(parts, g.resultTypes(t)...))
}

// isConstructor: a plain function whose results are fresh (`&S{…}` of an own struct, or declared as an interface
// and resolved by resultTypes to such a literal): handing out the only reference to what it built.
func isConstructor(g *fn, t *translator) bool {
	ok := true
	ast.Inspect(g.decl.Body, func(n ast.Node) bool {
		if r, isRet := n.(*ast.ReturnStmt); isRet {
			for _, e := range r.Results {
				if t.mentionsMutRec(t.info.Types[e].Type) {
					u, isAddr := ast.Unparen(e).(*ast.UnaryExpr)
					if !isAddr || u.Op != token.AND {
						ok = false
					} else if _, isLit := ast.Unparen(u.X).(*ast.CompositeLit); !isLit {
						ok = false
					}
				}
			}
		}
		return true
	})
	return ok
}

func (t *translator) emitFn(g *fn) string {
	curNaming = newNaming(g.decl)
	var sigText bytes.Buffer
	printer.Fprint(&sigText, t.fset, &ast.FuncDecl{Recv: g.decl.Recv, Name: g.decl.Name, Type: g.decl.Type})
	head := "def " + g.name + " " + g.typeBinders()
	if g.fuel {
		head += "(fuel : Nat) "
	}
	if g.rng {
		head += "(rand_ : Nat → Int) "
	}
	all := g.params
	if g.recv != nil {
		all = append([]*types.Var{g.recv}, g.params...)
	}
	for _, p := range all {
		if p.Name() == "" || p.Name() == "_" {
			t.fail(g.decl, "unnamed parameter")
		}
		if _, isPtr := types.Unalias(p.Type()).(*types.Pointer); isPtr && p != g.recv && !isRand(p.Type()) {
			// a *S parameter (a devirtualised `rhs Set[T]`): read-only (place refuses stores through it), and accepted
			// only where the receiver is not modified either, because the two may be the same object
			if t.ownStruct(p.Type()) == nil || g.mutRecv {
				t.fail(g.decl, "pointer parameter %s", p.Name())
			}
		}
		if sl, isSl := types.Unalias(p.Type()).(*types.Slice); isSl && p != g.recv && t.ownStruct(sl.Elem()) != nil {
			if _, isPtr := types.Unalias(sl.Elem()).(*types.Pointer); isPtr && g.mutRecv {
				t.fail(g.decl, "parameter %s of pointers to the receiver's type in a method that modifies its receiver (they may be the same object)", p.Name())
			}
		}
		if p != g.recv && t.mentionsMutRec(p.Type()) {
			t.fail(g.decl, "parameter %s contains pointers to mutable records", p.Name())
		}
		head += fmt.Sprintf("(%s : %s) ", varName(p), t.leanType(p.Type(), g.decl))
	}
	if rs := g.obj.Type().(*types.Signature).Results(); g.recv != nil || !isConstructor(g, t) {
		for i := 0; i < rs.Len(); i++ {
			if t.mentionsMutRec(rs.At(i).Type()) {
				t.fail(g.decl, "result %d of %s contains pointers to mutable records", i, g.name)
			}
		}
	}
	res := g.resultType(t)
	sh := &shared{}
	w := &writer{ind: 1}
	c := &ctx{t: t, f: g, w: w, sh: sh}

	// a pure function that is one `return e`
	if !g.effect && len(g.decl.Body.List) == 1 {
		if r, ok := g.decl.Body.List[0].(*ast.ReturnStmt); ok && len(r.Results) >= 1 {
			var rs []string
			for _, e := range r.Results {
				rs = append(rs, c.value(e, true))
			}
			if len(w.lines) == 0 {
				return fmt.Sprintf("/-- `%s` -/\n%s: %s :=\n  %s\n\n", sigText.String(), head, res, tuple(rs))
			}
		}
		*sh, w.lines = shared{}, nil
	}

	if g.recursive {
		w.ind = 2
	}
	assigned := map[*types.Var]bool{}
	for _, tg := range t.targets(g.decl.Body) {
		assigned[tg.v] = true
	}
	for _, p := range all {
		if assigned[p] {
			w.emit("let mut %s := %s", varName(p), varName(p))
		}
	}
	if !c.block(g.decl.Body.List) {
		if g.obj.Type().(*types.Signature).Results().Len() > 0 {
			t.fail(g.decl, "function with results whose body does not end in a return")
		}
		c.emitReturn(nil)
	}
	var b strings.Builder
	for _, d := range sh.defs {
		b.WriteString(d + "\n")
	}
	if g.lends {
		fmt.Fprintf(&b, "/-- `%s` — the result ALIASES storage of the receiver: this is its value at the moment of the return\n(no translated function uses it; see `lentResult` in go2lean) -/\n", sigText.String())
	} else {
		fmt.Fprintf(&b, "/-- `%s` -/\n", sigText.String())
	}
	switch {
	case g.recursive:
		fmt.Fprintf(&b, "%s: Outcome %s :=\n  match fuel with\n  | 0 => .diverge\n  | fuel+1 => do\n", head, paren(res))
	case g.effect:
		fmt.Fprintf(&b, "%s: Outcome %s := do\n", head, paren(res))
	default:
		fmt.Fprintf(&b, "%s: %s := Id.run do\n", head, res)
	}
	b.WriteString(w.String() + "\n")
	return b.String()
}

func (t *translator) emitAll() string {
	var fnText []string
	for _, g := range t.order {
		fnText = append(fnText, t.emitFn(g))
	}
	var b strings.Builder
	// structures in dependency order (a field's structure first), otherwise by package path and position
	sort.SliceStable(t.structs, func(i, j int) bool {
		a, c := t.structs[i].Obj(), t.structs[j].Obj()
		if a.Pkg() != c.Pkg() {
			return a.Pkg().Path() < c.Pkg().Path()
		}
		return a.Pos() < c.Pos()
	})
	done := map[*types.Named]bool{}
	var emit func(n *types.Named)
	emit = func(n *types.Named) {
		if done[n] {
			return
		}
		done[n] = true
		st := n.Underlying().(*types.Struct)
		for i := 0; i < st.NumFields(); i++ {
			var walk func(ty types.Type)
			walk = func(ty types.Type) {
				ty = types.Unalias(ty)
				switch u := ty.(type) {
				case *types.Pointer:
					walk(u.Elem())
				case *types.Slice:
					walk(u.Elem())
				case *types.Named:
					for _, m := range t.structs {
						if m == u.Origin() {
							emit(m)
						}
					}
				}
			}
			walk(st.Field(i).Type())
		}
		b.WriteString(t.emitStruct(n))
	}
	for _, s := range t.structs {
		emit(s)
	}
	for _, s := range fnText {
		b.WriteString(s)
	}
	return b.String()
}
