
/-! hand-written: the same calls as src/t/run.go, printed in the same format (fuel 1000 everywhere) -/
namespace Selftest
open AlgoVerif Selftest.Gen

def showInts (l : Array Int) : String := "[" ++ " ".intercalate (l.toList.map toString) ++ "]"
def line (label : String) : Outcome String → String
  | .ok s => s!"{label} ok {s}"
  | .panic => s!"{label} panic"
  | .diverge => s!"{label} hang"
def intsIn : List (Array Int) := [#[], #[4], #[3, 0, -2], #[0, 0, 5, 12, -1, 7], #[9, 8, 7, 6, 5, 4, 3]]
def F : Nat := 1000

def main : IO Unit := do
  for a in [(-7 : Int), -1, 0, 5, 7] do
    for b in [(-2 : Int), 0, 3] do
      IO.println (line s!"divmod {a} {b}" ((divmod a b).map fun (w, x, y, z) => s!"{w} {x} {y} {z}"))
  for s in intsIn do
    for i in [(-1 : Int), 0, 2, 5, 99] do
      IO.println (line s!"shortCircuit {showInts s} {i}" ((shortCircuit s i).map toString))
      IO.println (line s!"classify {showInts s} {i}" ((classify s i).map toString))
      IO.println (line s!"whileReturn {showInts s} {i}" ((whileReturn F s i).map toString))
    IO.println (line s!"firstNeg {showInts s}" ((firstNeg s).map toString))
    IO.println (line s!"rotate {showInts s}" ((rotate s).map showInts))
  for n in [(-3 : Int), 0, 1, 2, 5, 6, 7, 12] do
    IO.println (line s!"collatz {n}" ((collatz F n).map toString))
    IO.println (line s!"nested {n}" ((nested n).map toString))
    IO.println (line s!"fib {n}" ((fib F n).map toString))
    IO.println (line s!"useFill {n}" ((useFill F n).map toString))
    IO.println (line s!"methods {n}" ((methods n).map toString))

#eval main
end Selftest
