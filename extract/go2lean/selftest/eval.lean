
/-! hand-written: the same calls as src/t/run.go, printed in the same format (fuel 1000 everywhere) -/
namespace Selftest
open AlgoVerif Selftest.Gen

def showInts (l : Array Int) : String := "[" ++ " ".intercalate (l.toList.map toString) ++ "]"
def line (label : String) : Outcome String → String
  | .ok s => s!"{label} ok {s}"
  | .panic => s!"{label} panic"
  | .diverge => s!"{label} hang"
def intsIn : List (Array Int) := [#[], #[4], #[3, 0, -2], #[0, 0, 5, 12, -1, 7], #[9, 8, 7, 6, 5, 4, 3]]
def F : Nat := 1000
def str (s : String) : Go.Str := s.toUTF8.toList
/-- Go's %q of a byte string (printable ASCII as is, other bytes as \xNN) -/
def hex2 (b : UInt8) : String := let d := "0123456789abcdef".toList; String.ofList [d[(b / 16).toNat]!, d[(b % 16).toNat]!]
def showQ (s : Go.Str) : String := "\"" ++ String.join (s.map fun b => if b == 0 then "\\x00" else if 32 ≤ b ∧ b < 127 then String.ofList [Char.ofNat b.toNat] else "\\x" ++ hex2 b) ++ "\""
/-- %q prints valid UTF-8 as text: the one such test string is special-cased -/
def showQ' (s : Go.Str) : String := if s == [104, 0xc3, 0xa9, 108, 108, 111] then "\"héllo\"" else showQ s
def showQs (l : Array Go.Str) : String := "[" ++ " ".intercalate (l.toList.map showQ) ++ "]"
def showU (l : Array UInt64) : String := "[" ++ " ".intercalate (l.toList.map toString) ++ "]"
def bs (l : List Nat) : Go.Str := l.map UInt8.ofNat
def seqXs : Array Int := #[7, 0, 12, 5, 3, 1000, 1, 64, 9, 2, 31]
def newSeq : Go.Rand := Go.Rand.new fun k => seqXs[k % seqXs.size]!
/-- `r.Intn(1000)` of run.go, to show how far the generator was advanced -/
def next1000 (r : Go.Rand) : String := match Go.Rand.intn r 1000 with | .ok (_, v) => toString v | _ => "?"

def main : IO Unit := do
  for a in [(-7 : Int), -1, 0, 5, 7] do
    for b in [(-2 : Int), 0, 3] do
      IO.println (line s!"divmod {a} {b}" ((divmod a b).map fun (w, x, y, z) => s!"{w} {x} {y} {z}"))
  for s in intsIn do
    for i in [(-1 : Int), 0, 2, 5, 99] do
      IO.println (line s!"shortCircuit {showInts s} {i}" ((shortCircuit s i).map toString))
      IO.println (line s!"classify {showInts s} {i}" ((classify s i).map toString))
      IO.println (line s!"whileReturn {showInts s} {i}" ((whileReturn F s i).map toString))
    IO.println (line s!"firstNeg {showInts s}" ((firstNeg s).map toString))
    IO.println (line s!"rotate {showInts s}" ((rotate s).map showInts))
  for n in [(-3 : Int), 0, 1, 2, 5, 6, 7, 12] do
    IO.println (line s!"collatz {n}" ((collatz F n).map toString))
    IO.println (line s!"nested {n}" ((nested n).map toString))
    IO.println (line s!"fib {n}" ((fib F n).map toString))
    IO.println (line s!"useFill {n}" ((useFill F n).map toString))
    IO.println (line s!"methods {n}" ((methods n).map toString))
  for s in intsIn do
    for lo in [(-1 : Int), 0, 1] do
      for hi in [(0 : Int), 2, 4, 6, 7] do
        IO.println (line s!"scan {showInts s} {lo} {hi}" ((scan F s lo hi).map fun (c, i, j) => s!"{showInts c} {i} {j}"))
    IO.println (line s!"shuffle {showInts s}" ((shuffle s newSeq).map fun (c, r) => s!"{showInts c} {next1000 r}"))
    IO.println (line s!"clockShuffle {showInts s}" ((clockShuffle (fun k => 5 * k + 3) s).map fun (_, v) => toString v))
  for n in [(-1 : Int), 0, 1, 2, 5, 9] do
    for k in [(0 : Int), 1, 3, 5] do
      IO.println (line s!"draws {n} {k}" ((draws newSeq n k).map fun (_, v) => toString v))
    IO.println (line s!"draw2 {n}" ((draw2 newSeq n).map fun (r, v) => s!"{v} {next1000 r}"))
  for sc in ([#[], #[5, 10, 6, 7, 8], #[5, 5, 11, 12, 13, 13], #[6], #[7], #[8], #[0], #[25], #[10, 15, 20, 9, 14, 19, 24, 11, 17, 18, 13], #[5, 8, 5, 6, 8, 8],
      #[10, 1], #[10, 27], #[10, 3], #[10, 28], #[9, 14], #[4], #[29], #[5, 10, 15, 20, 21, 16, 11, 6, 22, 17, 12, 7, 23, 18, 13, 8]] : List (Array Int)) do
    IO.println (line s!"records {showInts sc}" ((records sc).map toString))
  let us : List UInt64 := [0, 1, 3, 255, 9223372036854775808, 0 - 1]
  for x in us do
    for y in us do
      for sh in [(-1 : Int), 0, 1, 8, 63, 64, 200] do
        IO.println (line s!"words {x} {y} {sh}" ((words x y sh).map fun (a, b, c, d, e, f) => s!"{a} {b} {c} {d} {e} {f}"))
  for v in [(0 : Int), 1, -1, 255, -256, 2 ^ 40, -(2 ^ 40) - 12345, 2 ^ 62 + 77] do
    for sh in [(-3 : Int), 0, 4, 8, 56, 63, 64, 65] do
      IO.println (line s!"ibits {v} {sh}" ((ibits v sh).map fun (a, b, c, d) => s!"{a} {b} {c} {d}"))
  for s in [bs [], str "a", str "mid", str "zz", bs [104, 0xc3, 0xa9, 108, 108, 111], bs [0, 255, 128]] do
    for i in [(-1 : Int), 0, 1, 2, 4, 6] do
      IO.println (line s!"bytesOf {showQ' s} {i}" ((bytesOf s i #[10, 20, 30, 40, 50]).map fun (a, b, c, d) => s!"{a} {b} {c} {d}"))
  for a in ([#[], #[str "b"], #[str "b", str "a", bs [], str "ab", str "a", bs [255], bs [97, 0]], #[str "same", str "same"]] : List (Array Go.Str)) do
    IO.println (line s!"sortStrings {showQs a}" ((sortStrings F a).map fun (c, n) => s!"{showQs c} {n}"))
  for a in ([#[], #[5, 0 - 1, 0, 9223372036854775808, 5]] : List (Array UInt64)) do
    IO.println (line s!"sortUints {showU a}" ((sortUints F a).map fun (c, n) => s!"{showU c} {n}"))
  for a in intsIn do
    IO.println (line s!"sortInts {showInts a}" ((sortInts F a).map fun (c, n) => s!"{showInts c} {n}"))
    for d in [(0 : Int), 1, 3, 5] do
      IO.println (line s!"paint {showInts a} {d}" ((paint F a 0 ((a.size : Int) - 1) d).map showInts))
      IO.println (line s!"gshuffle {showInts a} {d - 1}" ((gshuffle a (d - 1) newSeq).map fun (_, _, v) => toString v))
  IO.println (line "paint-range" ((paint F #[1, 2, 3] 0 5 4).map showInts))
  for x in ([0, 1, 12, 18, 0 - 1, 9223372036854775808] : List UInt64) do
    for y in ([0, 1, 8, 18, 27, 0 - 1] : List UInt64) do
      IO.println (line s!"euclid {x} {y}" ((euclid F x y).map fun (a, q) => s!"{a} {q}"))
  for n in [(-5 : Int), 0, 1, 9, 10, 11] do
    for k in [(-3 : Int), 0, 1, 5] do
      IO.println (line s!"nextMultiple {n} {k}" ((nextMultiple F n k).map toString))
  for i in ([#[], #[3], #[3, 5, 3, 8]] : List (Array Int)) do
    for sc in ([#[], #[3], #[8, 12, 2, 14], #[9], #[13], #[17], #[5], #[21], #[8, 12, 16, 13, 13, 9, 4, 34, 3, 17]] : List (Array Int)) do
      IO.println (line s!"bagScript {showInts i} {showInts sc}" ((bagScript i sc).map toString))
  for n in [(-1 : Int), 0, 1, 2, 4] do
    let pss : List (Array Int) := [#[], #[0, 0], #[1, 0, 0, 1, 3, 2, 2], #[0, 3, 3, 9, 5, 0]]
    for (k, ps) in (List.range 4).zip pss do
      IO.println (line s!"netScript {n} {k} {showInts ps}" ((netScript F n (k : Int) ps).map toString))
  for a in ([#[], #[5, 1, 9], #[2, 2, -4, 7]] : List (Array Int)) do
    for b in ([#[], #[9, 5, 1], #[3, -1, 8]] : List (Array Int)) do
      for lo in [(-1 : Int), 0, 1, 3, 4] do
        IO.println (line s!"rackScript {showInts a} {showInts b} {lo}" ((rackScript F a b lo).map toString))
  let f64 (b : Nat) : Go.F64 := ⟨UInt64.ofNat b⟩
  let showLinks (ls : Array link) : String :=
    "[" ++ " ".intercalate (ls.toList.map fun l => s!"{l.a}:{l.b}:{l.w.bits}") ++ "]"
  -- the bit patterns of run.go's weights: 1.5 | 0, -0, NaN (Go's math.NaN()), -Inf, 2.5e-320 (subnormal), -7.25
  let wss : List (Array Go.F64) := [#[], #[f64 0x3FF8000000000000],
    #[f64 0, f64 0x8000000000000000, f64 0x7FF8000000000001, f64 0xFFF0000000000000, f64 5060, f64 0xC01D000000000000]]
  for n in [(-1 : Int), 0, 1, 3] do
    for ps in ([#[], #[0, 0], #[1, 0, 0, 1, 2, 2, 1, 2], #[0, 3, 2, 1, -1, 0, 5]] : List (Array Int)) do
      for ws in wss do
        for flip in [false, true] do
          IO.println (line s!"meshScript {n} {showInts ps} {ws.size} {flip}"
            ((meshScript F n ps ws flip).map fun (m, ls) => s!"{m} {showLinks ls}"))
  for v in [(-1 : Int), 0, 1, 2, 3] do
    IO.println (line s!"mesh.at {v}" (do
      let g ← newMesh 3 #[⟨0, 1, f64 0x3FF8000000000000⟩, ⟨2, 2, f64 0xBFE0000000000000⟩, ⟨1, 0, f64 0x7FF8000000000001⟩, ⟨1, 7, f64 0x4008000000000000⟩]
      let ls ← mesh.at g v
      pure (showLinks ls)))
  for xs in ([#[], #[4], #[4, 5, 7, 4]] : List (Array Int)) do
    for i in [(-1 : Int), 0, 1, 3, 4] do
      for v in [(4 : Int), 5, 7, 9] do
        IO.println (line s!"pick {showInts xs} {i} {v}" ((pick xs i v).map toString))
  for m in [(0 : Int), 1, 4, 8] do
    for vals in ([#[], #[5], #[5, 6, 7], #[1, 2, 3, 4], #[9, 9, 9, 9, 9, 9, 9, 9]] : List (Array Int)) do
      for seed in ([0, 5, 0 - 3] : List UInt64) do
        for step in ([0, 1, 3] : List UInt64) do
          for want in [(3 : Int), 9] do
            IO.println (line s!"ringScript {m} {showInts vals} {seed} {step} {want}"
              ((ringScript F m vals seed step want).map fun (a, b, c) => s!"{a} {b} {c}"))

#eval main
end Selftest
