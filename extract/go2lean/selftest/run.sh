#!/bin/sh
# Differential self-test of the translator: the functions of src/t/t.go (one per construct of the subset) are run
# natively (src/main.go + src/t/run.go) and as translated Lean (go2lean output + eval.lean, evaluated by `lean`);
# the two transcripts must be identical.  Not part of any check; run it after changing go2lean.
set -e
export GOFLAGS=-mod=mod GOPROXY=off GOSUMDB=off GOTOOLCHAIN=local CGO_ENABLED=0
here=$(cd "$(dirname "$0")" && pwd)
tmp=$(mktemp -d /tmp/go2lean-selftest.XXXXXX)
trap 'rm -rf "$tmp"' EXIT
(cd "$here/.." && go build -o "$tmp/go2lean" .)
"$tmp/go2lean" -repo "$here/src" -pkg t -files t.go -ns Selftest.Gen -out "$tmp/Gen.lean" >/dev/null
cat "$tmp/Gen.lean" "$here/eval.lean" > "$tmp/Selftest.lean"
(cd "$here/src" && go run . > "$tmp/go.txt")
(cd /verif/lean && lake env lean "$tmp/Selftest.lean" > "$tmp/lean.txt") || { cat "$tmp/lean.txt"; echo "selftest: the translated file does not compile"; exit 1; }
if diff "$tmp/go.txt" "$tmp/lean.txt" > "$tmp/diff.txt"; then
  echo "selftest: OK ($(wc -l < "$tmp/go.txt") results identical)"
else
  head -20 "$tmp/diff.txt"; echo "selftest: Go and translated Lean DISAGREE"; exit 1
fi
