#!/bin/sh
# Differential self-test of the translator: the functions of src/t/t.go (one per construct of the subset) are run
# natively (src/main.go + src/t/run.go) and as translated Lean (go2lean output + eval.lean, evaluated by `lean`);
# the two transcripts must be identical; the packages of src/refuse (one aliasing / out-of-subset construct each) must be refused.  Not part of any check; run it after changing go2lean.
set -e
export GOFLAGS=-mod=mod GOPROXY=off GOSUMDB=off GOTOOLCHAIN=local CGO_ENABLED=0
here=$(cd "$(dirname "$0")" && pwd)
tmp=$(mktemp -d /tmp/go2lean-selftest.XXXXXX)
trap 'rm -rf "$tmp"' EXIT
(cd "$here/.." && go build -o "$tmp/go2lean" .)
"$tmp/go2lean" -repo "$here/src" -pkg t -files t.go -self shelf -skip rack.each -ns Selftest.Gen -out "$tmp/Gen.lean" >/dev/null
cat "$tmp/Gen.lean" "$here/eval.lean" > "$tmp/Selftest.lean"
(cd "$here/src" && go run . > "$tmp/go.txt")
(cd /verif/lean && lake env lean "$tmp/Selftest.lean" > "$tmp/lean.txt") || { cat "$tmp/lean.txt"; echo "selftest: the translated file does not compile"; exit 1; }
# refusals: every package under src/refuse must be REJECTED (exit 1, no file) with the message its first line wants
for d in "$here"/src/refuse/*/; do
  n=$(basename "$d"); want=$(sed -n '1s,^// want: ,,p' "$d/x.go"); flags=$(sed -n '2s,^// flags: ,,p' "$d/x.go")
  if "$tmp/go2lean" -repo "$here/src" -pkg "refuse/$n" -files x.go $flags -ns Selftest.R -out "$tmp/refuse-$n.lean" > "$tmp/refuse.txt" 2>&1 \
     || [ -e "$tmp/refuse-$n.lean" ]; then :; fi
  if [ -e "$tmp/refuse-$n.lean" ] || ! grep -q "unsupported: .*$want" "$tmp/refuse.txt"; then
    cat "$tmp/refuse.txt"; echo "selftest: refuse/$n was not refused with '$want'"; exit 1
  fi
done
if diff "$tmp/go.txt" "$tmp/lean.txt" > "$tmp/diff.txt"; then
  echo "selftest: OK ($(wc -l < "$tmp/go.txt") results identical, $(ls "$here/src/refuse" | wc -l) refusals)"
else
  head -20 "$tmp/diff.txt"; echo "selftest: Go and translated Lean DISAGREE"; exit 1
fi
