module example.com/selftest

go 1.23
