// Package kv: record types of ANOTHER package than the translated one (as generic.KeyValue is for /repo's heaps).
package kv

// Pair is assigned through pointers by package t (`s[i].Key = k`): a MUTABLE record there, owned by its slot.
type Pair[K, V any] struct {
	Key K
	Val V
}

// Tag is never assigned through a pointer by package t: an immutable record, which may be shared.
type Tag struct {
	ID int
}
