package main

import (
	"fmt"

	"example.com/selftest/t"
)

func try(name string, f func() string) {
	defer func() {
		if r := recover(); r != nil {
			fmt.Printf("%s panic\n", name)
		}
	}()
	fmt.Printf("%s ok %s\n", name, f())
}

func main() { t.Run(try) }
