package t

import (
	"fmt"
	"math"
	"math/rand"
)

// seqSrc: a rand.Source whose k-th Int63 is xs[k mod len] << 32, so that r.Intn(n) == xs[k mod len] % n for the
// small non-negative xs used here (math/rand: Intn -> Int31n -> Int31() = Int63()>>32, then & (n-1) or % n).
type seqSrc struct {
	xs []int64
	k  int
}

func (s *seqSrc) Int63() int64 { v := s.xs[s.k%len(s.xs)]; s.k++; return v << 32 }
func (s *seqSrc) Seed(int64)   {}

func newSeq() *rand.Rand {
	return rand.New(&seqSrc{xs: []int64{7, 0, 12, 5, 3, 1000, 1, 64, 9, 2, 31}})
}

// Run calls every function of t.go on fixed inputs; `try` prints "<label> ok <result>" or "<label> panic".
// NOT translated (run.sh passes only t.go to go2lean); eval.lean prints the same lines from the translation.
func Run(try func(string, func() string)) {
	ints := [][]int{{}, {4}, {3, 0, -2}, {0, 0, 5, 12, -1, 7}, {9, 8, 7, 6, 5, 4, 3}}
	for _, a := range []int{-7, -1, 0, 5, 7} {
		for _, b := range []int{-2, 0, 3} {
			try(fmt.Sprintf("divmod %d %d", a, b), func() string {
				w, x, y, z := divmod(a, b)
				return fmt.Sprint(w, x, y, z)
			})
		}
	}
	for _, s := range ints {
		for _, i := range []int{-1, 0, 2, 5, 99} {
			try(fmt.Sprintf("shortCircuit %v %d", s, i), func() string { return fmt.Sprint(shortCircuit(s, i)) })
			try(fmt.Sprintf("classify %v %d", s, i), func() string { return fmt.Sprint(classify(s, i)) })
			try(fmt.Sprintf("whileReturn %v %d", s, i), func() string { return fmt.Sprint(whileReturn(s, i)) })
		}
		try(fmt.Sprintf("firstNeg %v", s), func() string { return fmt.Sprint(firstNeg(s)) })
		try(fmt.Sprintf("rotate %v", s), func() string {
			c := append([]int{}, s...)
			rotate(c)
			return fmt.Sprint(c)
		})
	}
	for _, n := range []int{-3, 0, 1, 2, 5, 6, 7, 12} {
		try(fmt.Sprintf("collatz %d", n), func() string { return fmt.Sprint(collatz(n)) })
		try(fmt.Sprintf("nested %d", n), func() string { return fmt.Sprint(nested(n)) })
		try(fmt.Sprintf("fib %d", n), func() string { return fmt.Sprint(fib(n)) })
		try(fmt.Sprintf("useFill %d", n), func() string { return fmt.Sprint(useFill(n)) })
		try(fmt.Sprintf("methods %d", n), func() string { return fmt.Sprint(methods(n)) })
	}
	for _, s := range ints {
		for _, lo := range []int{-1, 0, 1} {
			for _, hi := range []int{0, 2, 4, 6, 7} {
				try(fmt.Sprintf("scan %v %d %d", s, lo, hi), func() string {
					c := append([]int{}, s...)
					i, j := scan(c, lo, hi)
					return fmt.Sprint(c, i, j)
				})
			}
		}
		try(fmt.Sprintf("shuffle %v", s), func() string {
			c := append([]int{}, s...)
			r := newSeq()
			shuffle(c, r)
			return fmt.Sprint(c, r.Intn(1000))
		})
		try(fmt.Sprintf("clockShuffle %v", s), func() string { return fmt.Sprint(clockShuffle(append([]int{}, s...))) })
	}
	for _, n := range []int{-1, 0, 1, 2, 5, 9} {
		for _, k := range []int{0, 1, 3, 5} {
			try(fmt.Sprintf("draws %d %d", n, k), func() string { return fmt.Sprint(draws(newSeq(), n, k)) })
		}
		try(fmt.Sprintf("draw2 %d", n), func() string {
			r := newSeq()
			x := draw2(r, n)
			return fmt.Sprint(x, r.Intn(1000))
		})
	}
	for _, sc := range [][]int{{}, {5, 10, 6, 7, 8}, {5, 5, 11, 12, 13, 13}, {6}, {7}, {8}, {0}, {25}, {10, 15, 20, 9, 14, 19, 24, 11, 17, 18, 13}, {5, 8, 5, 6, 8, 8},
		{10, 1}, {10, 27}, {10, 3}, {10, 28}, {9, 14}, {4}, {29}, {5, 10, 15, 20, 21, 16, 11, 6, 22, 17, 12, 7, 23, 18, 13, 8}} {
		try(fmt.Sprintf("records %v", sc), func() string { return fmt.Sprint(records(sc)) })
	}
	us := []uint{0, 1, 3, 255, 1 << 63, 1<<64 - 1}
	for _, x := range us {
		for _, y := range us {
			for _, sh := range []int{-1, 0, 1, 8, 63, 64, 200} {
				try(fmt.Sprintf("words %d %d %d", x, y, sh), func() string { return fmt.Sprint(words(x, y, sh)) })
			}
		}
	}
	for _, v := range []int{0, 1, -1, 255, -256, 1 << 40, -(1 << 40) - 12345, 1<<62 + 77} {
		for _, sh := range []int{-3, 0, 4, 8, 56, 63, 64, 65} {
			try(fmt.Sprintf("ibits %d %d", v, sh), func() string { return fmt.Sprint(ibits(v, sh)) })
		}
	}
	for _, s := range []string{"", "a", "mid", "zz", "h\xc3\xa9llo", "\x00\xff\x80"} {
		for _, i := range []int{-1, 0, 1, 2, 4, 6} {
			try(fmt.Sprintf("bytesOf %q %d", s, i), func() string { return fmt.Sprint(bytesOf(s, i, []int{10, 20, 30, 40, 50})) })
		}
	}
	for _, a := range [][]string{{}, {"b"}, {"b", "a", "", "ab", "a", "\xff", "a\x00"}, {"same", "same"}} {
		try(fmt.Sprintf("sortStrings %q", a), func() string {
			c := append([]string{}, a...)
			n := sortStrings(c)
			return fmt.Sprintf("%q %d", c, n)
		})
	}
	for _, a := range [][]uint{{}, {5, 1<<64 - 1, 0, 1 << 63, 5}} {
		try(fmt.Sprintf("sortUints %v", a), func() string {
			c := append([]uint{}, a...)
			n := sortUints(c)
			return fmt.Sprint(c, n)
		})
	}
	for _, a := range ints {
		try(fmt.Sprintf("sortInts %v", a), func() string {
			c := append([]int{}, a...)
			n := sortInts(c)
			return fmt.Sprint(c, n)
		})
		for _, d := range []int{0, 1, 3, 5} {
			try(fmt.Sprintf("paint %v %d", a, d), func() string {
				c := append([]int{}, a...)
				paint(c, 0, len(c)-1, d)
				return fmt.Sprint(c)
			})
			try(fmt.Sprintf("gshuffle %v %d", a, d-1), func() string { return fmt.Sprint(gshuffle(append([]int{}, a...), d-1)) })
		}
	}
	try("paint-range", func() string { c := []int{1, 2, 3}; paint(c, 0, 5, 4); return fmt.Sprint(c) })
	for _, x := range []uint64{0, 1, 12, 18, 1<<64 - 1, 1 << 63} {
		for _, y := range []uint64{0, 1, 8, 18, 27, 1<<64 - 1} {
			try(fmt.Sprintf("euclid %d %d", x, y), func() string { return fmt.Sprint(euclid(x, y)) })
		}
	}
	for _, n := range []int{-5, 0, 1, 9, 10, 11} {
		for _, k := range []int{-3, 0, 1, 5} {
			try(fmt.Sprintf("nextMultiple %d %d", n, k), func() string { return fmt.Sprint(nextMultiple(n, k)) })
		}
	}
	for _, in := range [][]int{{}, {3}, {3, 5, 3, 8}} {
		for _, sc := range [][]int{{}, {3}, {8, 12, 2, 14}, {9}, {13}, {17}, {5}, {21}, {8, 12, 16, 13, 13, 9, 4, 34, 3, 17}} {
			try(fmt.Sprintf("bagScript %v %v", in, sc), func() string { return fmt.Sprint(bagScript(in, sc)) })
		}
	}
	for _, n := range []int{-1, 0, 1, 2, 4} {
		for k, ps := range [][]int{{}, {0, 0}, {1, 0, 0, 1, 3, 2, 2}, {0, 3, 3, 9, 5, 0}} {
			try(fmt.Sprintf("netScript %d %d %v", n, k, ps), func() string { return fmt.Sprint(netScript(n, kind(k), ps)) })
		}
	}
	for _, a := range [][]int{{}, {5, 1, 9}, {2, 2, -4, 7}} {
		for _, b := range [][]int{{}, {9, 5, 1}, {3, -1, 8}} {
			for _, lo := range []int{-1, 0, 1, 3, 4} {
				try(fmt.Sprintf("rackScript %v %v %d", a, b, lo), func() string { return fmt.Sprint(rackScript(a, b, lo)) })
			}
		}
	}
	showLinks := func(ls []link) string {
		out := "["
		for i, l := range ls {
			if i > 0 {
				out += " "
			}
			out += fmt.Sprintf("%d:%d:%d", l.a, l.b, math.Float64bits(l.w))
		}
		return out + "]"
	}
	wss := [][]float64{{}, {1.5}, {0, math.Copysign(0, -1), math.NaN(), math.Inf(-1), 2.5e-320, -7.25}}
	for _, n := range []int{-1, 0, 1, 3} {
		for _, ps := range [][]int{{}, {0, 0}, {1, 0, 0, 1, 2, 2, 1, 2}, {0, 3, 2, 1, -1, 0, 5}} {
			for _, ws := range wss {
				for _, flip := range []bool{false, true} {
					try(fmt.Sprintf("meshScript %d %v %d %v", n, ps, len(ws), flip), func() string {
						m, ls := meshScript(n, ps, ws, flip)
						return fmt.Sprint(m, " ", showLinks(ls))
					})
				}
			}
		}
	}
	for _, v := range []int{-1, 0, 1, 2, 3} {
		try(fmt.Sprintf("mesh.at %d", v), func() string {
			g := newMesh(3, link{0, 1, 1.5}, link{2, 2, -0.5}, link{1, 0, math.NaN()}, link{1, 7, 3})
			return showLinks(g.at(v))
		})
	}
	for _, xs := range [][]int{{}, {4}, {4, 5, 7, 4}} {
		for _, i := range []int{-1, 0, 1, 3, 4} {
			for _, v := range []int{4, 5, 7, 9} {
				try(fmt.Sprintf("pick %v %d %d", xs, i, v), func() string { return fmt.Sprint(pick(xs, i, v)) })
			}
		}
	}
	for _, m := range []int{0, 1, 4, 8} {
		for _, vals := range [][]int{{}, {5}, {5, 6, 7}, {1, 2, 3, 4}, {9, 9, 9, 9, 9, 9, 9, 9}} {
			for _, seed := range []uint64{0, 5, 1<<64 - 3} {
				for _, step := range []uint64{0, 1, 3} {
					for _, want := range []int{3, 9} {
						try(fmt.Sprintf("ringScript %d %v %d %d %d", m, vals, seed, step, want), func() string {
							a, b, c := ringScript(m, vals, seed, step, want)
							return fmt.Sprint(a, b, c)
						})
					}
				}
			}
		}
	}
}
