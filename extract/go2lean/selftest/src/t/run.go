package t

import "fmt"

// Run calls every function of t.go on fixed inputs; `try` prints "<label> ok <result>" or "<label> panic".
// NOT translated (run.sh passes only t.go to go2lean); eval.lean prints the same lines from the translation.
func Run(try func(string, func() string)) {
	ints := [][]int{{}, {4}, {3, 0, -2}, {0, 0, 5, 12, -1, 7}, {9, 8, 7, 6, 5, 4, 3}}
	for _, a := range []int{-7, -1, 0, 5, 7} {
		for _, b := range []int{-2, 0, 3} {
			try(fmt.Sprintf("divmod %d %d", a, b), func() string {
				w, x, y, z := divmod(a, b)
				return fmt.Sprint(w, x, y, z)
			})
		}
	}
	for _, s := range ints {
		for _, i := range []int{-1, 0, 2, 5, 99} {
			try(fmt.Sprintf("shortCircuit %v %d", s, i), func() string { return fmt.Sprint(shortCircuit(s, i)) })
			try(fmt.Sprintf("classify %v %d", s, i), func() string { return fmt.Sprint(classify(s, i)) })
			try(fmt.Sprintf("whileReturn %v %d", s, i), func() string { return fmt.Sprint(whileReturn(s, i)) })
		}
		try(fmt.Sprintf("firstNeg %v", s), func() string { return fmt.Sprint(firstNeg(s)) })
		try(fmt.Sprintf("rotate %v", s), func() string {
			c := append([]int{}, s...)
			rotate(c)
			return fmt.Sprint(c)
		})
	}
	for _, n := range []int{-3, 0, 1, 2, 5, 6, 7, 12} {
		try(fmt.Sprintf("collatz %d", n), func() string { return fmt.Sprint(collatz(n)) })
		try(fmt.Sprintf("nested %d", n), func() string { return fmt.Sprint(nested(n)) })
		try(fmt.Sprintf("fib %d", n), func() string { return fmt.Sprint(fib(n)) })
		try(fmt.Sprintf("useFill %d", n), func() string { return fmt.Sprint(useFill(n)) })
		try(fmt.Sprintf("methods %d", n), func() string { return fmt.Sprint(methods(n)) })
	}
}
