// Package t: small functions that exercise every construct of go2lean's subset (evaluation order, short-circuit,
// tuple and operator assignment, break / continue / return inside loops, nested and shadowed variables, switch,
// recursion, copy / append, truncating division).  selftest/run.sh runs them natively and as translated Lean and
// compares the printed results.
package t

type acc struct {
	n    int
	data []int
}

func newAcc(n int) *acc {
	d := make([]int, n)
	for i := range d {
		d[i] = i * i
	}
	return &acc{n: n, data: d}
}

func (a *acc) bump(i, by int) int {
	a.data[i] += by
	a.n++
	return a.data[i]
}

func (a *acc) sum() int {
	s := 0
	for _, v := range a.data {
		s += v
	}
	return s
}

// divmod: Go's truncating division and remainder, constant and variable divisors
func divmod(a, b int) (int, int, int, int) {
	return a / 3, a % 3, a / b, a % b
}

// shortCircuit: the right operand (which would panic) is evaluated only when needed
func shortCircuit(s []int, i int) bool {
	return i >= 0 && i < len(s) && s[i] > 0 || i == 99
}

// firstNeg: return inside a range loop, continue, value variable
func firstNeg(s []int) int {
	for i, v := range s {
		if v == 0 {
			continue
		}
		if v < 0 {
			return i
		}
	}
	return -1
}

// collatz: a condition-only loop (fuel), op-assignment, if / else
func collatz(n int) int {
	steps := 0
	for n != 1 && n > 0 {
		if n%2 == 0 {
			n /= 2
		} else {
			n = 3*n + 1
		}
		steps++
	}
	return steps
}

// rotate: tuple assignment is simultaneous; stores happen left to right
func rotate(s []int) {
	if len(s) < 3 {
		return
	}
	s[0], s[1], s[2] = s[1], s[2], s[0]
}

// nested: nested counted loops, break in the inner one, shadowing in a block
func nested(n int) int {
	total := 0
	for i := 0; i < n; i++ {
		for j := n; j >= 0; j-- {
			if j < i {
				break
			}
			x := i * j
			{
				x := x + 1
				total += x
			}
			total -= x
		}
	}
	return total
}

// classify: tagless switch with a default, cases evaluated in order
func classify(s []int, i int) int {
	switch {
	case i < 0:
		return -1
	case i >= len(s):
		return -2
	case s[i] > 10:
		return 2
	default:
		return 1
	}
}

// fib: recursion (fuel = depth)
func fib(n int) int {
	if n < 2 {
		return n
	}
	return fib(n-1) + fib(n-2)
}

// fill: a callee that modifies its slice argument; the caller sees it
func fill(s []int, v int) {
	for i := 0; i < len(s); i++ {
		s[i] = v + i
	}
}

func useFill(n int) int {
	s := make([]int, n)
	fill(s, 7)
	t := append([]int{1, 2}, s...)
	copy(s, t[1:])
	s = append(s, 100)
	k := 0
	for i := len(s) - 1; i > 0; i -= 2 {
		k += s[i]
	}
	return k
}

// methods: receiver mutation through calls, op-assignment on an element
func methods(n int) int {
	a := newAcc(n)
	x := a.bump(1, 5)
	y := a.bump(1, 5)
	return x*1000 + y*10 + a.sum() + a.n
}

// whileReturn: return from inside a fuel loop, which sits inside a counted loop
func whileReturn(s []int, target int) int {
	for i := 0; i < len(s); i++ {
		k := s[i]
		for k > 0 {
			if k == target {
				return i
			}
			k -= 3
		}
	}
	return -1
}
