// Package t: small functions that exercise every construct of go2lean's subset (evaluation order, short-circuit,
// tuple and operator assignment, break / continue / return inside loops, nested and shadowed variables, switch,
// recursion, copy / append, truncating division).  selftest/run.sh runs them natively and as translated Lean and
// compares the printed results.
package t

import (
	"cmp"
	"iter"
	"math/rand"
	"time"

	"example.com/selftest/kv"
)

type acc struct {
	n    int
	data []int
}

func newAcc(n int) *acc {
	d := make([]int, n)
	for i := range d {
		d[i] = i * i
	}
	return &acc{n: n, data: d}
}

func (a *acc) bump(i, by int) int {
	a.data[i] += by
	a.n++
	return a.data[i]
}

func (a *acc) sum() int {
	s := 0
	for _, v := range a.data {
		s += v
	}
	return s
}

// divmod: Go's truncating division and remainder, constant and variable divisors
func divmod(a, b int) (int, int, int, int) {
	return a / 3, a % 3, a / b, a % b
}

// shortCircuit: the right operand (which would panic) is evaluated only when needed
func shortCircuit(s []int, i int) bool {
	return i >= 0 && i < len(s) && s[i] > 0 || i == 99
}

// firstNeg: return inside a range loop, continue, value variable
func firstNeg(s []int) int {
	for i, v := range s {
		if v == 0 {
			continue
		}
		if v < 0 {
			return i
		}
	}
	return -1
}

// collatz: a condition-only loop (fuel), op-assignment, if / else
func collatz(n int) int {
	steps := 0
	for n != 1 && n > 0 {
		if n%2 == 0 {
			n /= 2
		} else {
			n = 3*n + 1
		}
		steps++
	}
	return steps
}

// rotate: tuple assignment is simultaneous; stores happen left to right
func rotate(s []int) {
	if len(s) < 3 {
		return
	}
	s[0], s[1], s[2] = s[1], s[2], s[0]
}

// nested: nested counted loops, break in the inner one, shadowing in a block
func nested(n int) int {
	total := 0
	for i := 0; i < n; i++ {
		for j := n; j >= 0; j-- {
			if j < i {
				break
			}
			x := i * j
			{
				x := x + 1
				total += x
			}
			total -= x
		}
	}
	return total
}

// classify: tagless switch with a default, cases evaluated in order
func classify(s []int, i int) int {
	switch {
	case i < 0:
		return -1
	case i >= len(s):
		return -2
	case s[i] > 10:
		return 2
	default:
		return 1
	}
}

// fib: recursion (fuel = depth)
func fib(n int) int {
	if n < 2 {
		return n
	}
	return fib(n-1) + fib(n-2)
}

// fill: a callee that modifies its slice argument; the caller sees it
func fill(s []int, v int) {
	for i := 0; i < len(s); i++ {
		s[i] = v + i
	}
}

func useFill(n int) int {
	s := make([]int, n)
	fill(s, 7)
	t := append([]int{1, 2}, s...)
	copy(s, t[1:])
	s = append(s, 100)
	k := 0
	for i := len(s) - 1; i > 0; i -= 2 {
		k += s[i]
	}
	return k
}

// methods: receiver mutation through calls, op-assignment on an element
func methods(n int) int {
	a := newAcc(n)
	x := a.bump(1, 5)
	y := a.bump(1, 5)
	return x*1000 + y*10 + a.sum() + a.n
}

// whileReturn: return from inside a fuel loop, which sits inside a counted loop
func whileReturn(s []int, target int) int {
	for i := 0; i < len(s); i++ {
		k := s[i]
		for k > 0 {
			if k == target {
				return i
			}
			k -= 3
		}
	}
	return -1
}

// scan: loop initialisers that are inc/dec statements, empty loop bodies, `for { … break }` (Hoare partition)
func scan(s []int, lo, hi int) (int, int) {
	i, j := lo, hi+1
	for {
		for i++; i < hi && s[i] < 5; i++ {
		}
		for j--; j > lo && s[j] > 5; j-- {
		}
		if i >= j {
			break
		}
		s[i], s[j] = s[j], s[i]
	}
	return i, j
}

// draw2: a *rand.Rand parameter: Intn advances the generator (two calls in one expression, left to right) and
// panics for a bound <= 0
func draw2(r *rand.Rand, n int) int {
	return r.Intn(n)*100 + r.Intn(n+1)
}

// draws: the caller sees how far a callee advanced the generator; a local that shadows the generator's name
func draws(r *rand.Rand, n, k int) int {
	s := 0
	for i := 0; i < k; i++ {
		r := 10*s + r.Intn(n-i)
		s = r
	}
	x := draw2(r, n)
	return s*1000 + x*10 + r.Intn(7)
}

// shuffle: Fisher-Yates with the generator as a parameter
func shuffle(s []int, r *rand.Rand) {
	n := len(s)
	for i := 0; i < n; i++ {
		j := i + r.Intn(n-i)
		s[i], s[j] = s[j], s[i]
	}
}

// clockShuffle: a generator seeded from the clock (an arbitrary stream in the translation); what is returned
// does not depend on the draws
func clockShuffle(s []int) int {
	seed := time.Now().UTC().UnixNano()
	r := rand.New(rand.NewSource(seed))
	shuffle(s, r)
	sum := 0
	for _, v := range s {
		sum += v
	}
	return sum*10 + r.Intn(1)
}

// table: slots own their (mutable) records; tags are immutable records and may be shared between slots
type table struct {
	n     int
	slots []*kv.Pair[int, int]
	tags  []*kv.Tag
}

func newTable(n int) *table {
	return &table{n: 0, slots: make([]*kv.Pair[int, int], n), tags: make([]*kv.Tag, n)}
}

// put: a fresh literal is stored into a slot, which owns it from then on
func (t *table) put(i, k, v int) {
	t.slots[i] = &kv.Pair[int, int]{Key: k, Val: v}
	t.n++
}

// setKey: assignment through the pointer in a slot; panics for i out of range and for an empty (nil) slot
func (t *table) setKey(i, k int) {
	t.slots[i].Key = k
}

// bumpVal: operator assignment through the pointer
func (t *table) bumpVal(i, d int) {
	t.slots[i].Val += d
}

// take: the slot is read into a local (a borrow), cleared, and the record is still readable afterwards;
// an empty slot panics only at p.Key, after the slot was cleared and n decremented
func (t *table) take(i int) (int, int) {
	p := t.slots[i]
	t.slots[i] = nil
	t.n--
	return p.Key, p.Val
}

// tag: one immutable record shared by two slots; nil comparison
func (t *table) tag(i, j, id int) int {
	g := &kv.Tag{ID: id}
	t.tags[i] = g
	t.tags[j] = g
	c := 0
	for k := range t.tags {
		if t.tags[k] != nil {
			c += t.tags[k].ID
		}
	}
	return c
}

func (t *table) sum() int {
	s := t.n * 1000000
	for i := range t.slots {
		if t.slots[i] != nil {
			s += (i+1)*t.slots[i].Key + 100*t.slots[i].Val
		}
	}
	return s
}

// records: a script of operations on a table of 4 slots (op = x % 5, slot = x / 5 - 1, so slots -1 and 4 are out of range)
func records(script []int) int {
	t := newTable(4)
	acc := 0
	for _, x := range script {
		op, i := x%5, x/5-1
		switch {
		case op == 0:
			t.put(i, x, acc)
		case op == 1:
			t.setKey(i, acc+x)
		case op == 2:
			t.bumpVal(i, x)
		case op == 3:
			k, v := t.take(i)
			acc += k + 2*v
		default:
			g := t.tag(i, (i+1)%4, x)
			acc += g
		}
	}
	return acc*7 + t.sum()
}

// words: uint arithmetic wraps around; shifts by a signed count panic for a negative count and give 0 from 64 on;
// constant shifts; the bitwise operators
func words(x, y uint, s int) (uint, uint, uint, uint, uint, uint) {
	const K = 3
	a := x + y
	b := x - y
	c := x * y
	d := (x >> s) | (y << s)
	e := (x & y) ^ (x &^ y) ^ (^y >> K) ^ (x << 70) ^ (x >> 61)
	var f uint = 7
	f -= x
	f *= 3
	return a, b, c, d, e, f
}

// ibits: shifts and masks of (signed) int: arithmetic shift, two's-complement and / or / xor / not
func ibits(v, s int) (int, int, int, int) {
	return v >> s, (v >> s) & 255, (v | 5) ^ (v >> 2), ^v
}

// bytesOf: a string is its bytes: len, indexing (panics out of range), byte arithmetic wraps at 256, a byte as an index,
// conversions between int, uint and byte, string constants and comparison
func bytesOf(s string, i int, tab []int) (int, int, int, int) {
	b := s[i]
	var w byte = b + 200
	u := uint(b) << 60
	k := 0
	if s < "mid" || s == "zz" {
		k = 1
	}
	return len(s)*1000 + int(b), int(w)*2 + k, tab[b&3] + tab[uint(i)], int(u>>58) + int(byte(i+250)) + int(uint(i-3)>>60)
}

// sortOrd: the native order of a type parameter constrained by cmp.Ordered (ints, uints, strings)
func sortOrd[T cmp.Ordered](a []T) int {
	swaps := 0
	for i := 0; i < len(a); i++ {
		for j := i; j > 0 && a[j] < a[j-1]; j-- {
			a[j], a[j-1] = a[j-1], a[j]
			swaps++
		}
	}
	if len(a) > 1 && a[0] >= a[len(a)-1] {
		swaps += 100
	}
	return swaps
}

func sortStrings(a []string) int {
	n := sortOrd[string](a)
	return n
}

func sortUints(a []uint) int {
	n := sortOrd[uint](a)
	return n
}

func sortInts(a []int) int {
	n := sortOrd[int](a)
	return n
}

// paint: a recursive call inside a loop (the callee modifies the slice its caller goes on using)
func paint(a []int, lo, hi, depth int) {
	if depth == 0 || hi < lo {
		return
	}
	mid := (lo + hi) / 2
	a[mid] += depth
	for k := 0; k < 2; k++ {
		if k == 0 {
			paint(a, lo, mid-1, depth-1)
		} else {
			paint(a, mid+1, hi, depth-1)
		}
	}
}

// gshuffle: math/rand's package-level generator (threaded through the callee as an extra in-out parameter);
// the result does not depend on the draws, but rand.Intn(n) panics for n <= 0
func gdraw(n int) int { return rand.Intn(n) * 0 }

func gshuffle(s []int, extra int) int {
	n := len(s)
	for i := 0; i < n; i++ {
		j := i + rand.Intn(n-i)
		s[i], s[j] = s[j], s[i]
	}
	sum := gdraw(extra + 1)
	for _, v := range s {
		sum += v
	}
	return sum
}

// euclid: max / min of unsigned words, % by a variable divisor (a zero divisor panics), / likewise
func euclid(a, b uint64) (uint64, uint64) {
	q := a / b
	a, b = max(a, b), min(a, b)
	for b != 0 {
		a, b = b, a%b
	}
	return a, q
}

// nextMultiple: a loop without a condition that ends by return only; max / min of ints
func nextMultiple(n, k int) int {
	lo := min(n, k, 7)
	for p := max(n, 0); ; p++ {
		if p%k == 0 {
			return p + lo
		}
	}
}

// bag: variadic methods (called with individual arguments and with `xs...`), removal of one element in place
// (`append(s[:i], s[i+1:]...)`: panics unless 0 <= i < len), a constructor declared as an interface that returns a local
type sizer interface{ size() int }

type bag struct{ items []int }

func newBag(vals ...int) sizer {
	b := &bag{items: make([]int, 0)}
	b.add(vals...)
	return b
}

func (b *bag) size() int { return len(b.items) }

func (b *bag) has(vals ...int) bool {
	for _, v := range vals {
		found := false
		for _, x := range b.items {
			if x == v {
				found = true
			}
		}
		if !found {
			return false
		}
	}
	return true
}

func (b *bag) add(vals ...int) {
	for _, v := range vals {
		if !b.has(v) {
			b.items = append(b.items, v)
		}
	}
}

func (b *bag) removeAt(i int) {
	b.items = append(b.items[:i], b.items[i+1:]...)
}

// bagScript: x%4 == 0 add(x, x/4), 1 removeAt(x/4 - 2), 2 has(x/4, 3), 3 has()
func bagScript(init []int, script []int) int {
	b := &bag{items: make([]int, 0)}
	b.add(init...)
	acc := 0
	for _, x := range script {
		switch {
		case x%4 == 0:
			b.add(x, x/4)
		case x%4 == 1:
			b.removeAt(x/4 - 2)
		case x%4 == 2:
			if b.has(x/4, 3) {
				acc += 100
			}
		default:
			if b.has() {
				acc++
			}
		}
	}
	for i, v := range b.items {
		acc += (i + 2) * v * 1000
	}
	return acc + b.size()
}

// kind: a named integer type with constants
type kind int

const (
	kA kind = iota
	kB
	kC
)

func kindOK(k kind) bool { return k == kA || k == kC }

// net: slices of slices grown in place (`g.adj[v] = append(g.adj[v], w)`), a variadic parameter of fixed-size arrays,
// a nil slice as a result, ranging over an element of a slice of slices while another object is modified
type net struct {
	n   int
	adj [][]int
}

func newNet(n int, edges ...[2]int) *net {
	adj := make([][]int, n)
	for i := range adj {
		adj[i] = make([]int, 0)
	}
	g := &net{n: n, adj: adj}
	for _, e := range edges {
		g.link(e[0], e[1])
	}
	return g
}

func (g *net) link(v, w int) {
	if v >= 0 && v < g.n {
		g.adj[v] = append(g.adj[v], w)
	}
}

func (g *net) flip() *net {
	r := newNet(g.n)
	for v := 0; v < g.n; v++ {
		for _, w := range g.adj[v] {
			r.link(w, v)
		}
	}
	return r
}

func (g *net) out(v int) []int {
	if v < 0 || v >= g.n {
		return nil
	}
	o := make([]int, len(g.adj[v]))
	copy(o, g.adj[v])
	return o
}

func netScript(n int, k kind, pairs []int) int {
	g := newNet(n, [2]int{0, 1}, [2]int{1, 1})
	for i := 0; i+1 < len(pairs); i += 2 {
		g.link(pairs[i], pairs[i+1])
	}
	r := g.flip()
	acc := 0
	if kindOK(k) {
		acc = 5
	}
	for v := -1; v <= n; v++ {
		o := r.out(v)
		acc = acc*7 + len(o)
		for _, w := range o {
			acc = acc*3 + w
		}
	}
	var pair [2]int
	pair[1] = acc
	pair[0] = len(pair)
	return pair[0] + pair[1]
}

// shelf / rack: dynamic dispatch that devirt.go resolves — results declared as the interface but always a *rack,
// parameters of the interface type taken to be *rack (run.sh passes -self shelf), the canonical iterator `each`
// inlined (each itself is not translated: -skip rack.each) — and insertion in place,
// `x = append(x[:i], append([]T{v}, x[i:]...)...)`, which panics unless 0 <= i <= len(x)
type shelf interface {
	count() int
	has(v int) bool
	put(v int)
	each() iter.Seq[int]
	same(o shelf) bool
	fork() shelf
	plus(os ...shelf) shelf
}

type rack struct{ items []int }

func (r *rack) count() int { return len(r.items) }

func (r *rack) has(v int) bool {
	for _, x := range r.items {
		if x == v {
			return true
		}
	}
	return false
}

func (r *rack) putAt(lo, v int) {
	r.items = append(r.items[:lo], append([]int{v}, r.items[lo:]...)...)
}

func (r *rack) put(v int) {
	lo := 0
	for lo < len(r.items) && r.items[lo] < v {
		lo++
	}
	r.putAt(lo, v)
}

func (r *rack) each() iter.Seq[int] {
	return func(yield func(int) bool) {
		for _, m := range r.items {
			if !yield(m) {
				return
			}
		}
	}
}

func (r *rack) same(o shelf) bool {
	if r.count() != o.count() {
		return false
	}
	for m := range r.each() {
		if !o.has(m) {
			return false
		}
	}
	return true
}

func (r *rack) fork() shelf {
	t := &rack{items: make([]int, len(r.items))}
	copy(t.items, r.items)
	return t
}

func (r *rack) plus(os ...shelf) shelf {
	t := r.fork()
	for _, o := range os {
		for m := range o.each() {
			if m < 0 {
				break
			}
			if !t.has(m) {
				t.put(m)
			}
		}
	}
	return t
}

func rackScript(a, b []int, lo int) int {
	x := &rack{items: make([]int, 0)}
	for _, v := range a {
		x.put(v)
	}
	y := &rack{items: make([]int, 0)}
	for _, v := range b {
		y.put(v)
	}
	u := x.plus(y, x)
	acc := 0
	if x.same(y) {
		acc += 1
	}
	if u.same(y.plus(x)) {
		acc += 2
	}
	y.putAt(lo, 99)
	i := 0
	for v := range u.each() {
		acc += (i + 3) * v * 10
		i++
	}
	for i, v := range y.items {
		acc += (i + 7) * v * 1000
	}
	return acc
}

// ---- copy-only float64, flat structs stored twice, switch on a tag, append(x, s...), a lent result (weighted graphs) ----

type link struct {
	a, b int
	w    float64
}

// far: `switch` with a tag and non-constant case expressions (evaluated in order, lazily)
func (l link) far(v int) int {
	switch v {
	case l.a:
		return l.b
	case l.b:
		return l.a
	default:
		return -1
	}
}

func (l link) load() float64 { return l.w }

type mesh struct {
	n, m int
	adj  [][]link
}

func newMesh(n int, ls ...link) *mesh {
	adj := make([][]link, n)
	for i := range adj {
		adj[i] = make([]link, 0)
	}
	g := &mesh{n: n, m: 0, adj: adj}
	for _, l := range ls {
		g.add(l)
	}
	return g
}

func (g *mesh) ok(v int) bool { return v >= 0 && v < g.n }

// add stores the flat struct l twice: two copies, nothing shared
func (g *mesh) add(l link) {
	v := l.a
	w := l.far(v)
	if g.ok(v) && g.ok(w) {
		g.m++
		g.adj[v] = append(g.adj[v], l)
		g.adj[w] = append(g.adj[w], l)
	}
}

// at returns the graph's own list: a lent result (no translated function calls it)
func (g *mesh) at(v int) []link {
	if !g.ok(v) {
		return nil
	}
	return g.adj[v]
}

// all: out = append(out, ls...) of flat elements; flipped copies with the float moved through a literal
func (g *mesh) all(flip bool) []link {
	out := make([]link, 0)
	for _, ls := range g.adj {
		if flip {
			for _, l := range ls {
				out = append(out, link{l.b, l.a, l.load()})
			}
		} else {
			out = append(out, ls...)
		}
	}
	return out
}

// meshScript: links (ps[2i], ps[2i+1]) with weights ws[i mod len(ws)] copied out of a []float64
func meshScript(n int, ps []int, ws []float64, flip bool) (int, []link) {
	g := newMesh(n, link{0, 0, ws[0]})
	for i := 0; i+1 < len(ps); i += 2 {
		g.add(link{a: ps[i], b: ps[i+1], w: ws[(i/2)%len(ws)]})
	}
	return g.m, g.all(flip)
}

// pick: the case expressions are evaluated only until one is equal to the tag — xs[i] can panic, or never be reached
func pick(xs []int, i, v int) int {
	r := 0
	switch v + 0 {
	case xs[0]:
		r = 10
	case xs[i]:
		r = 20
	case 7:
		r = 30
		if i > 2 {
			r = 31
		}
	}
	return r + 1
}

// ---- closure conversion of a generator (symboltable's probe), effectful loop initialiser, ^= on words ----

type ring struct {
	m     int
	slots []int
}

// walk: h, then (h+i*step) % m — the closure captures four words, writes two of them; m == 0 panics on the second call
func (r *ring) walk(seed uint64, step uint64) func() int {
	h := seed
	h ^= (h >> 3) ^ (h >> 1)
	m := uint64(r.m)
	h1 := h & (m - 1)
	var i, cur uint64
	return func() int {
		if i == 0 {
			cur = h1
		} else {
			cur = (h1 + i*step) % m
		}
		i++
		return int(cur)
	}
}

// find: the generator's result is bound to a new variable and only ever called: in a loop header (initialiser and post
// statement) and in plain statements after the loop
func (r *ring) find(seed, step uint64, want int) (int, int, int) {
	next := r.walk(seed, step)
	n := 0
	for i := next(); r.slots[i] != 0 && n < 12; i = next() {
		if r.slots[i] == want {
			return i, n, -1
		}
		n++
	}
	a := next()
	b := next()
	return a, n, b
}

func ringScript(m int, vals []int, seed, step uint64, want int) (int, int, int) {
	r := &ring{m: m, slots: make([]int, m)}
	for i, v := range vals {
		r.slots[i] = v
	}
	return r.find(seed, step, want)
}
