// want: stored a second time
package innershare

func f(a [][]int, i, j int) {
	a[i] = a[j]
}
