// want: conversion
package floatconv

func f(n int) float64 { return float64(n) }
