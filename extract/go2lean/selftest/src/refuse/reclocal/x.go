// want: read into a variable in a function that
package reclocal

import "example.com/selftest/kv"

type tb struct{ slots []*kv.Pair[int, int] }

func (t *tb) f(i, k int) int {
	p := t.slots[i]
	p.Key = k
	return t.slots[i].Key
}
