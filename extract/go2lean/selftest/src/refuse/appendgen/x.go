// want: append
package appendgen

func f(a []int, b []int, i int) []int {
	c := make([]int, 0)
	c = append(a[:i], b...)
	return c
}
