// want: stored a second time
package recalias

import "example.com/selftest/kv"

type tb struct{ slots []*kv.Pair[int, int] }

func (t *tb) set(i, k int) { t.slots[i].Key = k }

func (t *tb) dup(i, j int) { t.slots[j] = t.slots[i] }
