// want: seed that is not a clock reading
package seedconst

import "math/rand"

func f() int {
	r := rand.New(rand.NewSource(42))
	return r.Intn(10)
}
