// want: read into a variable in a function that
package recborrow

import "example.com/selftest/kv"

type tb struct{ slots []*kv.Pair[int, int] }

func (t *tb) set(i, k int) { t.slots[i].Key = k }

func (t *tb) f(i, j int) int {
	p := t.slots[i]
	t.set(j, 5)
	return p.Key
}
