// want: stored a second time
package slicealias

func f(a []int) int {
	b := a
	b[0] = 1
	return a[0]
}
