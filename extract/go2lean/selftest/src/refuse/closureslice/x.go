// want: func
package closureslice

func gen(s []int) func() int {
	i := 0
	return func() int { i++; s[0] = i; return i }
}

func use(s []int) int {
	x := gen(s)
	return x()
}
