// want: division of byte by a divisor
package udiv

func f(x, y byte) byte { return x / y }
