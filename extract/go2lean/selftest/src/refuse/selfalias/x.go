// want: pointer parameter o
// flags: -self box
package selfalias

type box interface {
	put(v int)
	absorb(o box)
	size() int
}

type crate struct{ items []int }

func (c *crate) size() int { return len(c.items) }
func (c *crate) put(v int) { c.items = append(c.items, v) }

// the receiver is modified while o, which may be the same object, is read
func (c *crate) absorb(o box) {
	n := o.size()
	for i := 0; i < n; i++ {
		c.put(i)
	}
}
