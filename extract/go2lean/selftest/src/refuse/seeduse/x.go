// want: clock reading
package seeduse

import (
	"math/rand"
	"time"
)

func f() int {
	seed := time.Now().UnixNano()
	r := rand.New(rand.NewSource(seed))
	return r.Intn(10) + int(seed)
}
