// want: passed to it twice
package randtwice

import "math/rand"

func g(a, b *rand.Rand) int { return a.Intn(5) + b.Intn(5) }

func f(r *rand.Rand) int {
	x := g(r, r)
	return x
}
