// want: copy / append of a slice of pointers to mutable records
package reccopy

import "example.com/selftest/kv"

type tb struct{ slots []*kv.Pair[int, int] }

func (t *tb) set(i, k int) { t.slots[i].Key = k }

func (t *tb) grow() {
	bigger := make([]*kv.Pair[int, int], 2*len(t.slots))
	copy(bigger, t.slots)
	t.slots = bigger
}
