// want: literal 1.5
package floatconst

func f() float64 { return 1.5 }
