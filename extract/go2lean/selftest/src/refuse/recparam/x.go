// want: contains pointers to mutable records
package recparam

import "example.com/selftest/kv"

type tb struct{ slots []*kv.Pair[int, int] }

func (t *tb) set(i, k int) { t.slots[i].Key = k }

func get(ps []*kv.Pair[int, int]) int { return ps[0].Key }
