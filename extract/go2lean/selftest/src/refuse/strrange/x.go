// want: range over string
package strrange

func f(s string) int {
	n := 0
	for _, c := range s {
		n += int(c)
	}
	return n
}
