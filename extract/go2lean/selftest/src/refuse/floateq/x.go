// want: operator == on
package floateq

type link struct {
	a int
	w float64
}

func f(x, y link) bool { return x == y }
