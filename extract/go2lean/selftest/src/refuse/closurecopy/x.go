// want: func
package closurecopy

func gen(a int) func() int {
	i := a
	return func() int { i++; return i }
}

func use(a int) int {
	x := gen(a)
	y := x
	return x() + y()
}
