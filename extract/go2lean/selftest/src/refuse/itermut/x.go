// want: range loop whose body assigns to its own variable
// flags: -self box
package itermut

type box interface {
	put(v int)
	fill(os ...box) int
}

type crate struct{ items []int }

func (c *crate) put(v int) { c.items = append(c.items, v) }

// a modifying method is called on an object reached through the (read-only) variadic parameter
func (c *crate) fill(os ...box) int {
	for _, o := range os {
		o.put(1)
	}
	return len(os)
}
