// want: stored a second time
package randalias

import "math/rand"

func f(r *rand.Rand) int {
	q := r
	return q.Intn(3) + r.Intn(3)
}
