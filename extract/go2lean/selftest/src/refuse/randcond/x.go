// want: Intn in the right operand
package randcond

import "math/rand"

func f(r *rand.Rand, n int) bool {
	return n > 0 && r.Intn(n) == 0
}
