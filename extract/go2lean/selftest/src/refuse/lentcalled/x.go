// want: aliasing: an existing slice or struct is stored a second time
package lentcalled

type box struct{ rows [][]int }

func (b *box) row(i int) []int { return b.rows[i] }

func (b *box) first() int { return b.row(0)[0] }
