// want: func
package closurepass

func gen(a int) func() int {
	i := a
	return func() int { i++; return i }
}

func twice(f func() int) int { return f() + f() }

func use(a int) int {
	x := gen(a)
	return twice(x)
}
