// want: switch on a tag of type string
package switchstr

func f(s string) int {
	switch s {
	case "a":
		return 1
	}
	return 0
}
