// want: operator < on float64
package floatcmp

func f(a, b float64) bool { return a < b }
