// want: contains references
package appendshare

func f(x, ys [][]int) [][]int {
	x = append(x, ys...)
	return x
}
