// want: assigns to the elements of its variadic parameter
package varmut

func f(vals ...int) int {
	vals[0] = 1
	return vals[0]
}
