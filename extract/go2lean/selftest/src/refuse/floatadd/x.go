// want: operator + on float64
package floatadd

func f(a, b float64) float64 { return a + b }
