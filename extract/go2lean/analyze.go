package main

// Whole-file analysis that the translation of one function needs about the others:
// which functions exist, what a call mutates in its caller, which functions are pure, which take fuel,
// which loops are counted loops, and a definition order (callees first).

import (
	"go/ast"
	"go/token"
	"go/types"
	"sort"
)

type translator struct {
	fset    *token.FileSet
	info    *types.Info
	pkg     *types.Package
	ns      string
	fns     map[*types.Func]*fn
	order   []*fn           // source order
	skipped map[string]bool // -skip names → seen
	structs []*types.Named  // struct types the translated code mentions (filled by leanType)
	counted map[ast.Stmt]*countedLoop
	mutRec  map[*types.Named]bool // record types (structs of other packages) the translated code assigns through a pointer to
	grand   *types.Var            // the package-level generator of math/rand, as a synthetic last parameter `grand_`
	grandId *ast.Ident            // an identifier that resolves to it
}

type fn struct {
	decl      *ast.FuncDecl
	obj       *types.Func
	name      string       // Lean name: "quickFind.Union", "NewQuickFind"
	recv      *types.Var   // nil for a plain function
	params    []*types.Var // without the receiver
	mutRecv   bool         // assigns to the receiver's fields / elements
	mutParam  map[*types.Var]bool
	effect    bool // result is in Outcome
	fuel      bool // has a leading (fuel : Nat)
	recursive bool
	rng       bool  // creates a random generator: has a parameter (rand_ : Nat → Int), the generator's stream
	storesRec bool  // it, or a function it calls, assigns to a field of a record through a pointer (`p.f = e`)
	grand     bool  // it, or a function it calls, draws from math/rand's package-level generator (rand.Intn)
	variadic  bool  // its last declared parameter is `vals ...T`
	lends     bool  // a result is an alias of the receiver's storage (lentResult)
	callees   []*fn // translated functions called, in order of first call
}

// a counted loop: trip count and first value of the loop variable, as Go expressions
type countedLoop struct {
	v      *types.Var // loop variable (nil: `for range n`)
	lo, hi ast.Expr   // i := lo … i < hi   (down: i := hi' … i > lo')
	incl   bool       // <= / >=
	down   bool
	rng    ast.Expr   // `range x`: x (slice or int); then lo, hi are unused
	rngVal *types.Var // value variable of `for i, v := range s`
}

func (t *translator) fail(n ast.Node, format string, a ...any) {
	pos := "?"
	if n != nil {
		pos = t.fset.Position(n.Pos()).String()
	}
	die("%s: unsupported: "+format, append([]any{pos}, a...)...)
}

func recvTypeName(fd *ast.FuncDecl) string {
	e := fd.Recv.List[0].Type
	for {
		switch x := e.(type) {
		case *ast.StarExpr:
			e = x.X
		case *ast.IndexExpr:
			e = x.X
		case *ast.IndexListExpr:
			e = x.X
		case *ast.ParenExpr:
			e = x.X
		case *ast.Ident:
			return x.Name
		default:
			return "?"
		}
	}
}

// collect registers the functions of one file (minus the -skip list).
func (t *translator) collect(f *ast.File) {
	for _, d := range f.Decls {
		fd, ok := d.(*ast.FuncDecl)
		if !ok {
			continue
		}
		name := fd.Name.Name
		if fd.Recv != nil {
			name = recvTypeName(fd) + "." + name
		}
		if _, skip := t.skipped[name]; skip {
			t.skipped[name] = true
			continue
		}
		if fd.Body == nil {
			t.fail(fd, "function %s without a body", name)
		}
		obj, _ := t.info.Defs[fd.Name].(*types.Func)
		if obj == nil {
			t.fail(fd, "function %s has no type information", name)
		}
		sig := obj.Type().(*types.Signature)
		g := &fn{decl: fd, obj: obj, name: name, recv: sig.Recv(), mutParam: map[*types.Var]bool{}}
		g.variadic = sig.Variadic() // the last parameter `vals ...T` is a slice parameter (never modified: checked)
		for i := 0; i < sig.Params().Len(); i++ {
			g.params = append(g.params, sig.Params().At(i))
		}
		t.fns[obj] = g
		t.order = append(t.order, g)
	}
}

// callee resolves a call expression to a translated function (nil if it is something else).
func (t *translator) callee(call *ast.CallExpr) *fn {
	fun := ast.Unparen(call.Fun)
	switch x := fun.(type) { // explicit instantiation f[T](…)
	case *ast.IndexExpr:
		fun = x.X
	case *ast.IndexListExpr:
		fun = x.X
	}
	var id *ast.Ident
	switch x := fun.(type) {
	case *ast.Ident:
		id = x
	case *ast.SelectorExpr:
		id = x.Sel
	default:
		return nil
	}
	obj, _ := t.info.Uses[id].(*types.Func)
	if obj == nil {
		return nil
	}
	return t.fns[obj.Origin()]
}

// target is something a statement assigns to: a variable, one of its fields, or elements thereof.
type target struct {
	v     *types.Var
	field string // "" = the variable itself
	elem  bool   // only elements (s[i] = …), the slice header is unchanged
}

func (t *translator) varOf(id *ast.Ident) *types.Var {
	if v, ok := t.info.Uses[id].(*types.Var); ok {
		return v
	}
	if v, ok := t.info.Defs[id].(*types.Var); ok {
		return v
	}
	return nil
}

// root finds the variable an assignable expression lives in.
func (t *translator) root(e ast.Expr) (target, bool) {
	switch x := ast.Unparen(e).(type) {
	case *ast.Ident:
		if v := t.varOf(x); v != nil && !v.IsField() {
			return target{v: v}, true
		}
	case *ast.SelectorExpr:
		if r, ok := t.root(x.X); ok {
			if r.field == "" && !r.elem {
				r.field = x.Sel.Name
			}
			return r, true
		}
	case *ast.IndexExpr:
		if r, ok := t.root(x.X); ok {
			r.elem = true
			return r, true
		}
	case *ast.SliceExpr:
		if r, ok := t.root(x.X); ok {
			r.elem = true
			return r, true
		}
	}
	return target{}, false
}

// targets lists what the statements under n assign to (with the current knowledge about callees).
func (t *translator) targets(n ast.Node) []target {
	var out []target
	add := func(e ast.Expr, elem bool) {
		if id, ok := e.(*ast.Ident); ok && id.Name == "_" {
			return
		}
		if r, ok := t.root(e); ok {
			r.elem = r.elem || elem
			out = append(out, r)
		}
	}
	ast.Inspect(n, func(n ast.Node) bool {
		switch s := n.(type) {
		case *ast.AssignStmt:
			for _, l := range s.Lhs {
				add(l, false)
			}
		case *ast.IncDecStmt:
			add(s.X, false)
		case *ast.RangeStmt:
			if s.Tok == token.ASSIGN {
				if s.Key != nil {
					add(s.Key, false)
				}
				if s.Value != nil {
					add(s.Value, false)
				}
			}
		case *ast.CallExpr:
			if id, ok := ast.Unparen(s.Fun).(*ast.Ident); ok && id.Name == "copy" && len(s.Args) == 2 {
				if _, isBuiltin := t.info.Uses[id].(*types.Builtin); isBuiltin {
					add(s.Args[0], true)
				}
			}
			if x := t.randMethod(s); x != nil { // r.Intn(n) advances the generator r
				add(x, true)
			}
			if t.isGlobalIntn(s) { // rand.Intn(n) advances the package-level generator
				out = append(out, target{v: t.grand, elem: true})
			}
			if g := t.callee(s); g != nil && g.grand {
				out = append(out, target{v: t.grand, elem: true})
			}
			if g := t.callee(s); g != nil {
				if g.mutRecv {
					if sel, ok := ast.Unparen(s.Fun).(*ast.SelectorExpr); ok {
						if r, ok := t.root(sel.X); ok {
							r.field = "*" // any field
							out = append(out, r)
						}
					}
				}
				for i, p := range g.params {
					if g.mutParam[p] && i < len(s.Args) {
						add(s.Args[i], true)
					}
				}
			}
		}
		return true
	})
	return out
}

// isRand: *math/rand.Rand — an opaque generator, translated to the value Go.Rand (stream + position) and
// threaded through calls like a slice whose elements a callee modifies.
func isRand(ty types.Type) bool {
	p, ok := types.Unalias(ty).(*types.Pointer)
	if !ok {
		return false
	}
	n, ok := types.Unalias(p.Elem()).(*types.Named)
	return ok && n.Obj().Pkg() != nil && n.Obj().Pkg().Path() == "math/rand" && n.Obj().Name() == "Rand"
}

// stdFunc: the function or method of a standard package that a call expression calls (nil if none).
func (t *translator) stdFunc(call *ast.CallExpr) *types.Func {
	sel, ok := ast.Unparen(call.Fun).(*ast.SelectorExpr)
	if !ok {
		return nil
	}
	f, _ := t.info.Uses[sel.Sel].(*types.Func)
	if f == nil || f.Pkg() == nil || f.Pkg() == t.pkg {
		return nil
	}
	return f
}

// randMethod: for a call `r.Intn(n)` on a variable r of type *rand.Rand, the expression r.
func (t *translator) randMethod(call *ast.CallExpr) ast.Expr {
	f := t.stdFunc(call)
	if f == nil || f.Pkg().Path() != "math/rand" || f.Name() != "Intn" || len(call.Args) != 1 {
		return nil
	}
	x := ast.Unparen(call.Fun).(*ast.SelectorExpr).X
	if tv, ok := t.info.Types[x]; !ok || !isRand(tv.Type) {
		return nil
	}
	return x
}

// isGlobalIntn: rand.Intn(n), the package-level function.  The first one seen creates the synthetic variable.
func (t *translator) isGlobalIntn(call *ast.CallExpr) bool {
	f := t.stdFunc(call)
	if f == nil || f.Pkg().Path() != "math/rand" || f.Name() != "Intn" || len(call.Args) != 1 {
		return false
	}
	if f.Type().(*types.Signature).Recv() != nil {
		return false
	}
	if t.grand == nil {
		r := f.Pkg().Scope().Lookup("Rand")
		if r == nil {
			return false
		}
		t.grand = types.NewVar(token.NoPos, t.pkg, "grand_", types.NewPointer(r.Type()))
		t.grandId = ast.NewIdent("grand_")
		t.info.Uses[t.grandId] = t.grand
	}
	return true
}

// isRandNew: rand.New(rand.NewSource(…))
func (t *translator) isRandNew(call *ast.CallExpr) bool {
	f := t.stdFunc(call)
	if f == nil || f.Pkg().Path() != "math/rand" || f.Name() != "New" || len(call.Args) != 1 {
		return false
	}
	if sig := f.Type().(*types.Signature); sig.Recv() != nil {
		return false
	}
	in, ok := ast.Unparen(call.Args[0]).(*ast.CallExpr)
	if !ok {
		return false
	}
	g := t.stdFunc(in)
	return g != nil && g.Pkg().Path() == "math/rand" && g.Name() == "NewSource" && len(in.Args) == 1
}

// isClockRead: time.Now().UnixNano() and the like — a chain of argument-less methods of time.Time on time.Now().
func (t *translator) isClockRead(e ast.Expr) bool {
	call, ok := ast.Unparen(e).(*ast.CallExpr)
	if !ok || len(call.Args) != 0 {
		return false
	}
	f := t.stdFunc(call)
	if f == nil || f.Pkg().Path() != "time" {
		return false
	}
	if f.Type().(*types.Signature).Recv() == nil {
		return f.Name() == "Now"
	}
	return t.isClockRead(ast.Unparen(call.Fun).(*ast.SelectorExpr).X)
}

// storesThroughRecord: for an assignment target whose PATH (not its index operands, which are ordinary reads) goes
// through a pointer to a record of another package — `h.kvs[i].Key` — that record type; nil otherwise.
func (t *translator) storesThroughRecord(l ast.Expr) *types.Named {
	for {
		switch x := ast.Unparen(l).(type) {
		case *ast.SelectorExpr:
			if tv, ok := t.info.Types[x.X]; ok {
				if r, isPtr := t.record(tv.Type); r != nil && isPtr {
					return r.Origin()
				}
			}
			l = x.X
		case *ast.IndexExpr:
			l = x.X
		default:
			return nil
		}
	}
}

// mentionsMutRec: values of type ty contain pointers to a mutable record type.
func (t *translator) mentionsMutRec(ty types.Type) bool {
	seen := map[types.Type]bool{}
	var walk func(ty types.Type) bool
	walk = func(ty types.Type) bool {
		ty = types.Unalias(ty)
		if seen[ty] {
			return false
		}
		seen[ty] = true
		switch u := ty.(type) {
		case *types.Pointer:
			return walk(u.Elem())
		case *types.Slice:
			return walk(u.Elem())
		case *types.Named:
			if t.mutRec[u.Origin()] {
				return true
			}
			if st, ok := u.Underlying().(*types.Struct); ok && u.Obj().Pkg() == t.pkg {
				for i := 0; i < st.NumFields(); i++ {
					if walk(st.Field(i).Type()) {
						return true
					}
				}
			}
		}
		return false
	}
	return walk(ty)
}

func isSlice(ty types.Type) bool {
	_, ok := ty.Underlying().(*types.Slice)
	return ok
}

// isArray: a fixed-size array [N]T — a value type: reads and element stores are those of a slice, but nothing can
// alias it (assignment and parameter passing copy it), so none of the aliasing rules apply.
func isArray(ty types.Type) bool {
	_, ok := ty.Underlying().(*types.Array)
	return ok
}

// analyze computes mutation, loop kinds, purity, fuel and the definition order.
func (t *translator) analyze() {
	// 0. which record types are MUTABLE here: those with a store `p.f = e` through a pointer p to the record
	t.mutRec = map[*types.Named]bool{}
	for _, g := range t.order {
		note := func(l ast.Expr) {
			if r := t.storesThroughRecord(l); r != nil {
				t.mutRec[r] = true
				g.storesRec = true
			}
		}
		ast.Inspect(g.decl.Body, func(n ast.Node) bool {
			switch s := n.(type) {
			case *ast.AssignStmt:
				if s.Tok != token.DEFINE {
					for _, l := range s.Lhs {
						note(l)
					}
				}
			case *ast.IncDecStmt:
				note(s.X)
			}
			return true
		})
	}
	// 0b. which functions draw from math/rand's package-level generator: they get it as a last, in-out parameter
	for changed := true; changed; {
		changed = false
		for _, g := range t.order {
			if g.grand {
				continue
			}
			ast.Inspect(g.decl.Body, func(n ast.Node) bool {
				if call, ok := n.(*ast.CallExpr); ok {
					if h := t.callee(call); t.isGlobalIntn(call) || (h != nil && h.grand) {
						g.grand = true
					}
				}
				return !g.grand
			})
			changed = changed || g.grand
		}
	}
	for _, g := range t.order {
		if g.grand {
			g.params = append(g.params, t.grand)
		}
	}
	// 1. what each function mutates (fixpoint: mutation propagates from callee to caller)
	for changed := true; changed; {
		changed = false
		for _, g := range t.order {
			for _, tg := range t.targets(g.decl.Body) {
				if g.recv != nil && tg.v == g.recv && !g.mutRecv {
					g.mutRecv, changed = true, true
				}
				for _, p := range g.params {
					if tg.v == p && tg.elem && (isSlice(p.Type()) || isRand(p.Type())) && !g.mutParam[p] {
						g.mutParam[p], changed = true, true
					}
				}
			}
		}
	}
	for _, g := range t.order {
		if g.variadic {
			nd := g.obj.Type().(*types.Signature).Params().Len()
			if g.mutParam[g.params[nd-1]] {
				t.fail(g.decl, "%s assigns to the elements of its variadic parameter (visible to the caller only for a `xs...` call)", g.name)
			}
		}
	}
	// 2. loop kinds
	t.counted = map[ast.Stmt]*countedLoop{}
	for _, g := range t.order {
		ast.Inspect(g.decl.Body, func(n ast.Node) bool {
			switch s := n.(type) {
			case *ast.ForStmt:
				if c := t.classifyFor(s); c != nil {
					t.counted[s] = c
				}
			case *ast.RangeStmt:
				t.counted[s] = t.classifyRange(s)
			case *ast.FuncLit:
				t.fail(n, "function literal")
			}
			return true
		})
	}
	// 3. direct effects, fuel, callees
	for _, g := range t.order {
		seen := map[*fn]bool{}
		ast.Inspect(g.decl.Body, func(n ast.Node) bool {
			switch s := n.(type) {
			case *ast.IndexExpr:
				if tv, ok := t.info.Types[s.X]; ok && tv.IsValue() {
					g.effect = true
				}
			case *ast.SliceExpr:
				g.effect = true
			case *ast.RangeStmt:
				g.effect = true
			case *ast.ForStmt:
				g.effect = true
				if t.counted[s] == nil {
					g.fuel = true
				}
			case *ast.BinaryExpr:
				if (s.Op == token.QUO || s.Op == token.REM) && !t.nonZeroConst(s.Y) {
					g.effect = true
				}
				if (s.Op == token.SHL || s.Op == token.SHR) && t.info.Types[s.Y].Value == nil {
					g.effect = true // a shift by a variable count can panic (negative count)
				}
			case *ast.AssignStmt:
				if (s.Tok == token.QUO_ASSIGN || s.Tok == token.REM_ASSIGN) && !t.nonZeroConst(s.Rhs[0]) {
					g.effect = true
				}
			case *ast.CallExpr:
				if id, ok := ast.Unparen(s.Fun).(*ast.Ident); ok {
					if _, isBuiltin := t.info.Uses[id].(*types.Builtin); isBuiltin && id.Name == "make" {
						g.effect = true
					}
				}
				if t.randMethod(s) != nil || t.isGlobalIntn(s) {
					g.effect = true
				}
				if t.isRandNew(s) {
					if g.rng {
						t.fail(s, "a second random generator in one function")
					}
					g.rng = true
				}
				if h := t.callee(s); h != nil {
					if h == g {
						g.recursive, g.fuel, g.effect = true, true, true
					} else if !seen[h] {
						seen[h] = true
						g.callees = append(g.callees, h)
					}
				}
			}
			return true
		})
	}
	for _, g := range t.order {
		for _, h := range g.callees {
			if h.rng {
				t.fail(g.decl, "call of %s, which creates a random generator (its stream parameter would have to be split)", h.name)
			}
		}
	}
	for changed := true; changed; {
		changed = false
		for _, g := range t.order {
			for _, h := range g.callees {
				if h.effect && !g.effect {
					g.effect, changed = true, true
				}
				if h.fuel && !g.fuel {
					g.fuel, g.effect, changed = true, true, true
				}
				if h.storesRec && !g.storesRec {
					g.storesRec, changed = true, true
				}
			}
		}
	}
	// 4. definition order: callees first, ties in source order; mutual recursion is outside the subset
	var sorted []*fn
	state := map[*fn]int{}
	var visit func(g *fn)
	visit = func(g *fn) {
		switch state[g] {
		case 1:
			t.fail(g.decl, "mutual recursion through %s", g.name)
		case 2:
			return
		}
		state[g] = 1
		cs := append([]*fn(nil), g.callees...)
		sort.SliceStable(cs, func(i, j int) bool { return cs[i].decl.Pos() < cs[j].decl.Pos() })
		for _, h := range cs {
			visit(h)
		}
		state[g] = 2
		sorted = append(sorted, g)
	}
	for _, g := range t.order {
		visit(g)
	}
	t.order = sorted
}

func (t *translator) nonZeroConst(e ast.Expr) bool {
	tv, ok := t.info.Types[e]
	return ok && tv.Value != nil && tv.Value.String() != "0"
}

// invariantIn reports whether the pure expression e reads nothing that body assigns
// (`len(s)` tolerates stores to the elements of s).
func (t *translator) invariantIn(e ast.Expr, assigned []target) bool {
	ok := true
	var walk func(e ast.Expr, underLen bool)
	conflict := func(r target, underLen bool) bool {
		for _, a := range assigned {
			if a.v != r.v {
				continue
			}
			if a.elem && underLen && (a.field == r.field || a.field == "") {
				continue // element stores do not change a length
			}
			if a.field == "" || a.field == "*" || r.field == "" || a.field == r.field {
				return true
			}
		}
		return false
	}
	walk = func(e ast.Expr, underLen bool) {
		switch x := ast.Unparen(e).(type) {
		case *ast.BasicLit:
		case *ast.Ident:
			if v := t.varOf(x); v != nil {
				if conflict(target{v: v}, underLen) {
					ok = false
				}
			}
		case *ast.SelectorExpr:
			r, isPath := t.root(x)
			if !isPath || conflict(r, underLen) {
				ok = false
			}
		case *ast.IndexExpr: // s[i]: nothing in the body may store into s (not even an element) or assign i
			r, isPath := t.root(x)
			if !isPath || conflict(target{v: r.v, field: r.field}, false) {
				ok = false
			}
			for _, a := range assigned {
				if a.v == r.v && (a.field == r.field || a.field == "" || a.field == "*" || r.field == "") {
					ok = false // an element store `s[j] = …` could be to s[i] itself
				}
			}
			walk(x.Index, false)
		case *ast.BinaryExpr:
			walk(x.X, false)
			walk(x.Y, false)
			if (x.Op == token.QUO || x.Op == token.REM) && !t.nonZeroConst(x.Y) {
				ok = false
			}
		case *ast.UnaryExpr:
			walk(x.X, false)
		case *ast.CallExpr:
			if id, isId := ast.Unparen(x.Fun).(*ast.Ident); isId && id.Name == "len" && len(x.Args) == 1 {
				if _, isBuiltin := t.info.Uses[id].(*types.Builtin); isBuiltin {
					walk(x.Args[0], true)
					return
				}
			}
			ok = false
		default:
			ok = false
		}
	}
	walk(e, false)
	return ok
}

// classifyFor recognises `for i := lo; i < hi; i++` (and <=, and i-- with > / >=) whose bound is
// invariant and whose variable is not assigned in the body; nil = a loop that takes fuel.
func (t *translator) classifyFor(s *ast.ForStmt) *countedLoop {
	init, ok := s.Init.(*ast.AssignStmt)
	if !ok || init.Tok != token.DEFINE || len(init.Lhs) != 1 || len(init.Rhs) != 1 {
		return nil
	}
	id, ok := init.Lhs[0].(*ast.Ident)
	if !ok {
		return nil
	}
	v := t.varOf(id)
	cond, ok := s.Cond.(*ast.BinaryExpr)
	if !ok || v == nil {
		return nil
	}
	cid, ok := ast.Unparen(cond.X).(*ast.Ident)
	if !ok || t.varOf(cid) != v {
		return nil
	}
	post, ok := s.Post.(*ast.IncDecStmt)
	if !ok {
		return nil
	}
	pid, ok := post.X.(*ast.Ident)
	if !ok || t.varOf(pid) != v {
		return nil
	}
	c := &countedLoop{v: v}
	switch {
	case post.Tok == token.INC && (cond.Op == token.LSS || cond.Op == token.LEQ):
		c.lo, c.hi, c.incl = init.Rhs[0], cond.Y, cond.Op == token.LEQ
	case post.Tok == token.DEC && (cond.Op == token.GTR || cond.Op == token.GEQ):
		c.hi, c.lo, c.incl, c.down = init.Rhs[0], cond.Y, cond.Op == token.GEQ, true
	default:
		return nil
	}
	assigned := t.targets(s.Body)
	for _, a := range assigned {
		if a.v == v {
			return nil
		}
	}
	if !t.invariantIn(cond.Y, assigned) {
		return nil
	}
	return c
}

// classifyRange accepts `for i := range s`, `for i, v := range s`, `for range n`, `for i := range n`
// over a slice or an int that the body does not reassign.
func (t *translator) classifyRange(s *ast.RangeStmt) *countedLoop {
	if s.Tok == token.ASSIGN {
		t.fail(s, "range loop assigning to existing variables")
	}
	tv := t.info.Types[s.X]
	_, isInt := tv.Type.Underlying().(*types.Basic)
	if !isSlice(tv.Type) && !(isInt && tv.Type.Underlying().(*types.Basic).Info()&types.IsInteger != 0) {
		t.fail(s, "range over %s", tv.Type)
	}
	c := &countedLoop{rng: s.X}
	if id, ok := s.Key.(*ast.Ident); ok && id.Name != "_" {
		c.v = t.varOf(id)
	}
	if id, ok := s.Value.(*ast.Ident); ok && id.Name != "_" {
		c.rngVal = t.varOf(id)
	}
	assigned := t.targets(s.Body)
	for _, a := range assigned {
		if (c.v != nil && a.v == c.v) || (c.rngVal != nil && a.v == c.rngVal) {
			t.fail(s, "range loop whose body assigns to its own variable")
		}
	}
	if !t.invariantIn(&ast.CallExpr{Fun: lenIdent(t), Args: []ast.Expr{s.X}}, assigned) && isSlice(tv.Type) {
		t.fail(s, "range over a slice that the body reassigns")
	}
	if !isSlice(tv.Type) && !t.invariantIn(s.X, assigned) {
		t.fail(s, "range over an int that the body reassigns")
	}
	return c
}

// lenIdent is an identifier that resolves to the builtin len (for invariantIn's len(s) case).
func lenIdent(t *translator) *ast.Ident {
	id := ast.NewIdent("len")
	t.info.Uses[id] = types.Universe.Lookup("len")
	return id
}
