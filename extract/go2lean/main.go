// Command go2lean translates a restricted subset of Go function and method bodies into Lean 4
// definitions, so that a Lean Model of the code can be REGENERATED from /repo's source on every check
// run (bin/pre-Cxx) and the theorems are re-checked against what the code says now.
//
// Usage:
//
//	go2lean -repo /repo -pkg unionfind -files unionfind.go -ns AlgoVerif.Generated.UnionFind \
//	        -out /verif/lean/AlgoVerif/Generated/C17Gen.lean [-skip Name,Recv.Method,…]
//
// Every function and method declared in the named files is translated, except those listed in -skip
// (the generated header names them).  A construct outside the subset makes the program print
// "go2lean: file:line:col: unsupported: <construct>" and exit 1 WITHOUT writing anything: nothing is
// skipped silently and nothing is approximated.  Output is deterministic (source order, no map
// iteration) and the file is rewritten only when its content changes.
//
// # The subset and the translation scheme
//
// Types.  int → Int (UNBOUNDED: integer overflow is NOT modelled), bool → Bool, []T → Array T,
// a type parameter T → a Lean type variable with an `Inhabited` instance whose `default` stands for
// Go's zero value of T, func types → Lean function types (function VALUES — comparators such as
// generic.CompareFunc[T] = func(T, T) int, generic.EqualFunc[T] — are pure total functions), a struct
// whose fields have such types → a `structure`, *S for a struct S of the package → S.
//
// Words and strings.  uint / uint64 → UInt64 and byte / uint8 → UInt8: Lean's fixed-width arithmetic wraps around
// exactly as Go's (uint IS 64 bits: the constant bits.UintSize of the type-checked source is folded to 64);
// `+ - *`, `& | ^ &^`, unary `- ^`, comparisons, division by a non-zero constant only.  Shifts `<<` `>>` of a uint /
// uint64 or an int: by a constant count a pure term (a count >= 64 gives 0 for unsigned), otherwise through
// Go.shrU64 / Go.shlU64 / Go.shrInt / Go.shlInt, which PANIC for a negative count (a count of unsigned type is taken
// as a natural number); `>>` on int is the arithmetic shift (floor division by 2^s) of the unbounded Int, exact.
// `& | ^` on int are taken on the 64-bit two's-complement patterns (Go.andInt …: exact for operands that are 64-bit
// ints — the one place where int is read as a machine word).  Conversions between int, uint / uint64 and byte:
// byte → int / uint exact, uint → int the same 64 bits in two's complement, int → uint / byte and uint → byte modulo
// 2^64 / 2^8.  An index of unsigned type is its value as a natural number.  string → Go.Str = the list of its bytes
// (strings are immutable in Go, so value semantics is trivially sound): len(s), s[i] (a byte; out of range panics),
// constants, ==, != and the order; no slicing, concatenation or range (runes).  A type parameter constrained by
// constraints.Ordered / cmp.Ordered gets an instance argument `[Go.Ordered T]`; `<  >  <=  >=` on such a T and on
// strings are Go.Ordered.lt (instances: Int, UInt64, UInt8, Go.Str = bytewise lexicographic; NO float instance, so
// `a <= b` may be, and is, translated as `!(b < a)`).  Local `const` declarations are folded into their uses; a named
// integer type (`type TraversalStrategy int`) is its underlying type; `max` / `min` of integers; `/ %` of uint64 by a
// variable divisor panic for zero (Go.divU64 / Go.modU64).
//
// No aliasing.  Slices, structs and pointers are VALUES in the translation.  That is sound only because the
// subset cannot create two names for one mutable object, and the translator refuses everything that could:
//   - a pointer *S may occur only as a method receiver, as the `&S{…}` literal of a return statement, as
//     the result of a constructor (also when declared as an interface), and as a local variable that
//     receives such a fresh result (`a := newS(…)`); no pointer-typed parameters or fields (so no linked
//     structures: list/stack.go, list/queue.go are out — queue.go even keeps two pointers into one chain
//     and stores through one of them);
//   - a pointer *R to a struct R of ANOTHER package (generic.KeyValue[K, V]) is an `Option R`: `nil` is `none`,
//     `p == nil` / `p != nil` are `isNone` / `isSome` (no other pointer comparison), `p.f` dereferences
//     (`Go.deref`: nil panics), `&R{…}` is `some {…}`.  Two regimes, decided per record type and translation unit:
//     IMMUTABLE — the translated files contain no assignment through a pointer to R: then nothing can change
//     an R after its literal was built, and sharing such records is unobservable (heap/binary.go);
//     MUTABLE — they contain `s[i].f = e` (only this form: the pointer is read from a slice element; also
//     `s[i].f op= e`; heap/indexed_binary.go's `h.kvs[i].Key = key`): then every R has exactly ONE OWNER, the
//     slice element its fresh literal was stored into, and `s[i].f = e` is `s[i] := some { (deref s[i]) with
//     f := e }` (index panic, then nil panic).  Ownership is enforced by refusing everything else that could
//     make a second reference: a value that contains pointers to R may be stored only if it is `nil`, a
//     fresh `&R{…}` / composite literal, `make`, or the result of a translated function (which is fresh or
//     moved by these very rules); no copy / append of slices of such pointers; no parameter (except the
//     receiver) and no result of a non-constructor whose type contains such pointers.  The one exception is
//     the BORROW `x := s[i]` into a NEW local variable outside any loop: x is a read-only second reference, which
//     is sound because it is accepted only in functions that — directly or through any callee — contain no
//     assignment through a pointer to a mutable record at all, so the record cannot change while x lives (x
//     keeps its value when the slot is overwritten, `s[i] = nil`, exactly as the Go pointer keeps the record);
//   - an existing slice or struct is never stored a second time (`b := a`, `s.f = a`, `return s.f`,
//     `t := *s` are rejected); only a LOCAL variable may be given up: in a return statement / returned
//     literal, or in an assignment outside any loop after which the function never mentions it again
//     (`newH := make(…); copy(newH, h.heap); h.heap = newH`);
//   - a slice parameter is never reassigned as a whole (Go would not show that to the caller);
//   - a slice that a callee modifies does not reach it twice (two arguments, or argument + receiver);
//   - slices grow only in place: `x = append(x, v)` → `x.push v` (with no second reference to x's array,
//     whether Go reallocates is unobservable; x may be an element of a slice of slices, `g.adj[v] = append(g.adj[v],
//     w)` — an inner slice is never stored a second time either); `append([]T{…}, s...)` builds a fresh slice;
//     `x = append(x[:i], x[i+1:]...)` (exactly this shape, i a variable) removes element i: whatever the capacity,
//     Go panics unless 0 <= i and i+1 <= len(x) — x[i+1:] is checked against the LENGTH — and otherwise the result
//     is x without its i-th element; `x = append(x[:i], append([]T{v…}, x[i:]...)...)` inserts v… before position
//     i: the inner append builds a FRESH slice before the outer one writes, Go panics unless 0 <= i <= len(x) (x[i:]
//     is checked against the length), and otherwise the result is x[:i] ++ [v…] ++ x[i:]; `copy(dst, src)`, `copy(dst[l:h], src[l2:h2])` store into dst; a slice
//     EXPRESSION s[l:h] is allowed only as the source of copy / append and in the removal shape; a nil slice is the
//     empty one (comparing a slice with nil is refused, so they cannot be told apart);
//   - a fixed-size array [N]T is a VALUE in Go — assignment, parameter passing and `range` copy it — so it is an
//     Array without any aliasing rule (a parameter of array type is assumed to have length N, as Go guarantees);
//   - a variadic parameter `vals ...T` is a slice parameter the function only reads (assigning to its elements is
//     refused: the caller would see it for `f(xs...)` and not for `f(a, b)`); `f(a, b)` passes a fresh `#[a, b]`;
//   - a constructor declared to return an interface may return a local variable that holds a fresh `&S{…}`;
//   - dynamic dispatch through an interface of the package is resolved, where the dynamic type is known, by the
//     source rewriting of devirt.go (its header has the three rules and their justification; the generated file
//     lists what was applied).  A parameter of type *S that results from it is READ-ONLY (place refuses stores through
//     a struct parameter) and accepted only in methods that do not modify their receiver either, since the two may be
//     the same object; objects passed to a variadic `...*S` are likewise only read (no store to the elements of the
//     parameter, no store of an element, no modifying method on the range variable that holds one);
//   - a FLAT value — a struct VALUE (not reached through a pointer) or array whose fields, recursively, are of basic
//     types only — contains no reference at all, so Go's assignment copies all of it and the copy shares nothing:
//     such a value may be stored any number of times (`g.adj[v] = append(g.adj[v], e); g.adj[w] = append(g.adj[w], e)`
//     for an edge struct e); `x = append(x, s...)` (x a variable, s another slice that is only read) is `x ++ s`,
//     accepted when the element type is flat (the copied elements share nothing with those of s) or a type
//     parameter (the translated code has no operation that looks inside such an element);
//   - a LENT result: `return g.adj[v]` — a plain path of fields / elements of the receiver — returns an ALIAS.  The
//     translated function states the VALUE of the result at the moment of the return, which is true whether or not
//     the result shares storage with the receiver; sharing only changes what code sees that runs AFTER the return and
//     holds both.  The shape is therefore accepted exactly when no translated function mentions the function (the
//     alias reaches untranslated callers only, about which the generated file claims nothing) and the function itself
//     writes neither to its receiver nor to a parameter; the generated doc comment carries the remark;
//   - float64 (and float32: `Go.F32`) is COPY-ONLY (`Go.F64`, a bit pattern): field reads, struct literals, assignment, arguments, results and
//     slice elements move it around unchanged, which is all Go does on a copy; EVERY operator, comparison (also `==`
//     on a struct or array containing one: IEEE `==` is not equality of bit patterns), conversion, constant, max / min
//     on the type is refused, so the translated code depends on no property of floating-point numbers at all;
//   - closures: none, except the GENERATOR shape converted by closure.go before type-checking (a function whose last
//     statement returns its only function literal, capturing variables of basic type; every use binds the result to a
//     new local variable that is only ever called): it becomes a record of the captured variables and a method `call`,
//     after which the rules above for a fresh `&S{…}` and a method that modifies its receiver apply; closure.go's header
//     has the argument, the generated file's header names what was converted;
//   - no package-level variables, maps, channels, defer, goto.
//
// Random generators.  A `*rand.Rand` (math/rand) is the VALUE `Go.Rand`: the stream of the draws the generator
// will still produce and the number already consumed.  `r.Intn(n)` (the only method accepted) panics for
// n <= 0, otherwise consumes one draw and yields it reduced into [0, n): whatever the real generator does,
// some stream reproduces it, and every stream respects Intn's contract, so a theorem for all streams covers
// all generators and seeds.  The generator is mutable state behind a pointer, so it is treated exactly like a
// slice whose elements a callee modifies: it may be a PARAMETER (assumed non-nil, as method receivers are) or a
// local variable, only of the form of a plain identifier; a function that calls Intn on a parameter (or passes it
// to one that does) returns the advanced generator in its result tuple; it is never stored a second time, never
// passed twice to one call, never a field; Intn in the right operand of && / || is refused (a conditional
// store).  `rand.New(rand.NewSource(seed))` is accepted only where `seed` is a clock reading — a local variable
// initialised by `time.Now()[.UTC()].UnixNano()` and used for nothing else, or that expression itself — outside
// any loop, at most once per function: reading the clock changes nothing, and the resulting generator is an
// arbitrary stream, which becomes the function's parameter `(rand_ : Nat → Int)` (after `fuel`).  A translated
// function may not call such a function (its stream would have to be split).
// The PACKAGE-LEVEL generator (`rand.Intn(n)`, the function) is hidden global state: every function that draws from
// it, directly or through a callee, gets it as an extra LAST in-out parameter `grand_ : Go.Rand` (and returns it with
// its results, after the modified slice parameters); sound because nothing else can draw from it during a call of
// translated code (function values are pure, there are no goroutines).
//
// Functions.  `func (u *S) M(p int) (int, bool)` → `def S.M [(fuel : Nat)] (u : S) (p : Int) :
// Outcome (… )`.  A function is PURE (plain result type, no Outcome) when it has no indexing, loop,
// make, non-constant division, recursion, and calls only pure functions; otherwise its result is in
// the `Outcome` monad of AlgoVerif/Common.lean (ok / panic / diverge).  What a call changes in its
// caller comes back in the result: the result tuple is (receiver if the method assigns to it or to
// its fields/elements, every slice parameter whose elements it assigns, the declared results), in
// that order.  A constructor whose declared result is an interface and whose every `return` gives
// `&S{…}` returns S.
//
// Statements.  Bodies become Lean `do` blocks: a local variable is a `let mut` (always with its Go
// type), assignment (also tuple-, op-assignment, ++/--) is reassignment, `u.f = e` is
// `u := { u with f := e }`, `s[i] = e` goes through the bounds-checked `Go.setIdx`, if/else (with
// init statement), tagless switch (an else-if chain, evaluated case by case), `switch tag {…}` on an int (the tag is
// evaluated once, then the case expressions in order, each only if no earlier one was equal — the same chain; a
// `break` inside a switch outside a loop is refused), block, early `return`
// are the `do` notation's own.  Evaluation order is Go's: every sub-expression that can panic
// (`s[i]` → `Go.idx`, make, division, slice expression, call of a non-pure translated function) is bound
// to a temporary `tN_` by a preceding `let tN_ ← …`, left to right; the right operand of && / || is
// evaluated only when Go evaluates it; in an assignment the index operands and the right-hand sides
// are evaluated first, then the stores happen left to right.
//
// `x op= y` for `+ - * / %` on int, `+ - *` and `& | ^` on unsigned words is `x = x op (y)` with x's operands evaluated
// once.  A loop initialiser `for i := f(); …` whose call modifies its receiver or arguments is an ordinary statement in
// front of the loop (it runs exactly once, before the first test); its variables enter the loop as state.
//
// Loops.  Each loop becomes a separate recursive definition `F.loopN` over the variables it assigns
// (the loop state; the other variables it mentions are parameters), structurally recursive on a
// leading Nat:
//
//   - COUNTED loops — `for i := range s`, `for i := range n`, and `for i := a; i < b; i++`
//     (also `<=`, and `i--` with `>` / `>=`) where `i` is not assigned in the body and nothing `b`
//     reads is assigned in the body (`len(s)` is unaffected by element stores) — recurse on the trip
//     count `(b - a).toNat` (computed once, before the loop) and cannot diverge;
//   - every OTHER loop — `for cond { … }`, `for { … }`, `for init; cond; post { … }` (an init statement that
//     is not a `:=`, e.g. `for i++; …`, is an ordinary statement executed before the loop) — takes FUEL: one
//     unit per evaluation of the condition (per iteration when there is none), `Outcome.diverge` when it runs out.  A function that contains such
//     a loop, or is recursive, or calls such a function, gets a leading parameter `(fuel : Nat)`
//     which it hands to each of its loops / callees unchanged; a recursive function recurses
//     structurally on its fuel (one unit per call).  The CALLER chooses the fuel; the theorems about
//     the generated definitions say which fuel suffices (e.g. `len(u.root)` for union-find's Find).
//
// RECURSION INSIDE A LOOP (`for r := 0; r < R; r++ { msdString(a, aux, lo+count[r], …) }`).  A loop is a definition
// that precedes its function, so a loop whose body calls the function being translated receives that function —
// already applied to its type arguments and to the remaining fuel — as a parameter `rec_`, and the function passes
// `(F fuel)` at the loop's call; Lean accepts this as structural recursion on the fuel.
//
// `break` leaves the loop with the current state, `continue` runs the post statement and goes on; a loop
// whose body contains `return` yields `Go.Ctl.ret r` (r = the function's result) instead of
// `Go.Ctl.next state`, and its caller returns r / goes on with the state.  `for i, v := range s` reads
// `v := s[i]` at the start of each iteration; the range expression is evaluated once (its length is the trip
// count) and the body may not reassign it.  Labels are not supported.
//
// # Trusted
//
// This program; AlgoVerif/Model/GoRt.lean (the Lean reading of indexing, make, division, copy, Intn, shifts, the
// 64-bit bitwise operators on int, string indexing and order);
// Lean's `do` notation; and Go's semantics of exactly the constructs above.  Not modelled: integer
// overflow (int is unbounded), memory exhaustion, goroutines.
package main

import (
	"flag"
	"fmt"
	"go/ast"
	"go/importer"
	"go/parser"
	"go/token"
	"go/types"
	"os"
	"path/filepath"
	"sort"
	"strings"
)

func die(format string, a ...any) {
	fmt.Fprintf(os.Stderr, "go2lean: "+format+"\n", a...)
	os.Exit(1)
}

// modImporter type-checks packages of /repo's own module from source (imports inside the module), the packages of
// the modules that go.mod requires from the module cache (offline), and the standard library from GOROOT's source.
type modImporter struct {
	repo, modpath string
	fset          *token.FileSet
	cache         map[string]*types.Package
	std           types.Importer
	requires      [][2]string // module path, version — the require lines of go.mod
	modcache      string      // GOMODCACHE
}

func (m *modImporter) Import(path string) (*types.Package, error) {
	if p, ok := m.cache[path]; ok {
		return p, nil
	}
	dir := ""
	switch {
	case path == m.modpath || strings.HasPrefix(path, m.modpath+"/"):
		dir = filepath.Join(m.repo, strings.TrimPrefix(strings.TrimPrefix(path, m.modpath), "/"))
	default:
		// a package of a module that go.mod requires: its source in the module cache (offline), longest module path first
		best := -1
		for i, r := range m.requires {
			if (path == r[0] || strings.HasPrefix(path, r[0]+"/")) && (best < 0 || len(r[0]) > len(m.requires[best][0])) {
				best = i
			}
		}
		if best < 0 || m.modcache == "" {
			return m.std.Import(path)
		}
		r := m.requires[best]
		dir = filepath.Join(m.modcache, escapeModPath(r[0])+"@"+r[1], strings.TrimPrefix(strings.TrimPrefix(path, r[0]), "/"))
	}
	files, err := parseDir(m.fset, dir)
	if err != nil {
		return nil, err
	}
	cfg := types.Config{Importer: m, Error: func(error) {}} // only the exported signatures are needed
	p, _ := cfg.Check(path, m.fset, files, nil)
	m.cache[path] = p
	return p, nil
}

// parseDir parses the non-test, non-hook Go files of a directory in name order.
func parseDir(fset *token.FileSet, dir string) ([]*ast.File, error) {
	ents, err := os.ReadDir(dir)
	if err != nil {
		return nil, err
	}
	var names []string
	for _, e := range ents {
		n := e.Name()
		if strings.HasSuffix(n, ".go") && !strings.HasSuffix(n, "_test.go") && !strings.HasSuffix(n, "_verif.go") {
			names = append(names, n)
		}
	}
	sort.Strings(names)
	var files []*ast.File
	for _, n := range names {
		f, err := parser.ParseFile(fset, filepath.Join(dir, n), nil, parser.ParseComments)
		if err != nil {
			return nil, err
		}
		files = append(files, f)
	}
	return files, nil
}

// escapeModPath: the module cache spells an upper-case letter as '!' + its lower case.
func escapeModPath(p string) string {
	var b strings.Builder
	for _, c := range p {
		if c >= 'A' && c <= 'Z' {
			b.WriteByte('!')
			c += 'a' - 'A'
		}
		b.WriteRune(c)
	}
	return b.String()
}

// requirements lists the (module, version) pairs of go.mod's require directives.
func requirements(repo string) (out [][2]string) {
	b, err := os.ReadFile(filepath.Join(repo, "go.mod"))
	if err != nil {
		return nil
	}
	inBlock := false
	for _, l := range strings.Split(string(b), "\n") {
		f := strings.Fields(strings.SplitN(l, "//", 2)[0])
		switch {
		case len(f) == 2 && f[0] == "require" && f[1] == "(":
			inBlock = true
		case inBlock && len(f) == 1 && f[0] == ")":
			inBlock = false
		case inBlock && len(f) == 2:
			out = append(out, [2]string{f[0], f[1]})
		case len(f) == 3 && f[0] == "require":
			out = append(out, [2]string{f[1], f[2]})
		}
	}
	return out
}

func goModCache() string {
	if d := os.Getenv("GOMODCACHE"); d != "" {
		return d
	}
	if d := os.Getenv("GOPATH"); d != "" {
		return filepath.Join(filepath.SplitList(d)[0], "pkg", "mod")
	}
	if h, err := os.UserHomeDir(); err == nil {
		return filepath.Join(h, "go", "pkg", "mod")
	}
	return ""
}

func modulePath(repo string) string {
	b, err := os.ReadFile(filepath.Join(repo, "go.mod"))
	if err != nil {
		die("%v", err)
	}
	for _, l := range strings.Split(string(b), "\n") {
		if f := strings.Fields(l); len(f) == 2 && f[0] == "module" {
			return f[1]
		}
	}
	die("no module line in %s/go.mod", repo)
	return ""
}

func main() {
	repo := flag.String("repo", "/repo", "repository root")
	pkgDir := flag.String("pkg", "", "package directory relative to the repository root")
	fileList := flag.String("files", "", "comma-separated files of the package whose functions are translated")
	skipList := flag.String("skip", "", "comma-separated functions (Name or Recv.Method) NOT translated")
	ns := flag.String("ns", "", "Lean namespace of the generated definitions")
	out := flag.String("out", "", "output .lean file")
	selfList := flag.String("self", "", "comma-separated interfaces of the package: in a method of a struct S, a parameter of such an interface type is taken to hold a *S (see devirt.go)")
	flag.Parse()
	if *pkgDir == "" || *fileList == "" || *ns == "" || *out == "" {
		die("-pkg, -files, -ns and -out are required")
	}

	fset := token.NewFileSet()
	files, err := parseDir(fset, filepath.Join(*repo, *pkgDir))
	if err != nil {
		die("%v", err)
	}
	mod := modulePath(*repo)
	imp := &modImporter{repo: *repo, modpath: mod, fset: fset, cache: map[string]*types.Package{},
		std: importer.ForCompiler(fset, "source", nil), requires: requirements(*repo), modcache: goModCache()}
	info := &types.Info{
		Types:     map[ast.Expr]types.TypeAndValue{},
		Defs:      map[*ast.Ident]types.Object{},
		Uses:      map[*ast.Ident]types.Object{},
		Instances: map[*ast.Ident]types.Instance{},
	}
	want := map[string]bool{}
	for _, f := range strings.Split(*fileList, ",") {
		want[strings.TrimSpace(f)] = true
	}
	skipNames := map[string]bool{}
	for _, n := range strings.Split(*skipList, ",") {
		if n = strings.TrimSpace(n); n != "" {
			skipNames[n] = true
		}
	}
	// inSkipped: the position lies inside a function that is not translated
	inSkipped := func(pos token.Pos) bool {
		for _, f := range files { // (positions are unique across the file set; a file's own extent is not used: the
			for _, d := range f.Decls { // rewritings append declarations without positions)
				if fd, ok := d.(*ast.FuncDecl); ok && fd.Pos().IsValid() && fd.Pos() <= pos && pos <= fd.End() {
					name := fd.Name.Name
					if fd.Recv != nil {
						name = recvTypeName(fd) + "." + name
					}
					return skipNames[name]
				}
			}
		}
		return false
	}
	dv := &devirt{self: map[string]bool{}}
	for _, n := range strings.Split(*selfList, ",") {
		if n = strings.TrimSpace(n); n != "" {
			dv.self[n] = true
		}
	}
	for _, f := range files {
		if want[filepath.Base(fset.Position(f.Pos()).Filename)] {
			dv.files = append(dv.files, f)
		}
	}
	dv.params()
	cc := &closureConv{files: dv.files, done: map[*ast.FuncDecl]bool{}, skipped: func(fd *ast.FuncDecl) bool {
		name := fd.Name.Name
		if fd.Recv != nil {
			name = recvTypeName(fd) + "." + name
		}
		return skipNames[name]
	}}
	var typeErrs []string
	var pkg *types.Package
	for round := 0; ; round++ {
		*info = types.Info{
			Types:     map[ast.Expr]types.TypeAndValue{},
			Defs:      map[*ast.Ident]types.Object{},
			Uses:      map[*ast.Ident]types.Object{},
			Instances: map[*ast.Ident]types.Instance{},
		}
		typeErrs = nil
		cfg := types.Config{Importer: imp, Error: func(e error) {
			// a type error matters only if it is in a file we translate (other files may import packages that cannot
			// be loaded offline) and not inside a function that is not translated (devirtualisation may break those);
			// an untyped expression in a translated body fails loudly later
			if te, ok := e.(types.Error); ok && want[filepath.Base(te.Fset.Position(te.Pos).Filename)] && !inSkipped(te.Pos) {
				typeErrs = append(typeErrs, e.Error())
			}
		}}
		pkg, _ = cfg.Check(mod+"/"+*pkgDir, fset, files, info)
		if round > 20 {
			die("devirtualisation does not reach a fixpoint")
		}
		c1 := dv.results(info, pkg)
		c2 := dv.iterators(info, pkg)
		c3 := cc.convert(info)
		if !c1 && !c2 && !c3 {
			break
		}
	}
	if len(typeErrs) > 0 {
		die("type errors in the files to translate:\n  %s", strings.Join(typeErrs, "\n  "))
	}

	t := &translator{fset: fset, info: info, pkg: pkg, ns: *ns, fns: map[*types.Func]*fn{}, skipped: map[string]bool{}}
	for _, s := range strings.Split(*skipList, ",") {
		if s = strings.TrimSpace(s); s != "" {
			t.skipped[s] = false // becomes true when a declaration of that name is seen
		}
	}
	var srcs []string
	for _, f := range files {
		name := filepath.Base(fset.Position(f.Pos()).Filename)
		if !want[name] {
			continue
		}
		delete(want, name)
		srcs = append(srcs, *pkgDir+"/"+name)
		t.collect(f)
	}
	for name := range want {
		die("file %s not found in %s/%s", name, *repo, *pkgDir)
	}
	var skippedNames []string
	for name, seen := range t.skipped {
		if !seen {
			die("-skip %s: no such function in the translated files", name)
		}
		skippedNames = append(skippedNames, name)
	}
	sort.Strings(skippedNames)

	t.analyze()
	body := t.emitAll()

	var b strings.Builder
	b.WriteString("import AlgoVerif.Model.GoRt\n")
	fmt.Fprintf(&b, "/-! GENERATED by /verif/extract/go2lean from %s — do not edit; rewritten on every check run.\n", strings.Join(srcs, ", "))
	b.WriteString("Scheme and subset: see the header of /verif/extract/go2lean/main.go; runtime: AlgoVerif/Model/GoRt.lean.\n")
	b.WriteString("Go `int` is the unbounded `Int` (overflow is not modelled).\n")
	if len(skippedNames) > 0 {
		fmt.Fprintf(&b, "NOT translated (excluded by the caller with -skip): %s\n", strings.Join(skippedNames, ", "))
	}
	sort.Strings(dv.applied)
	for _, a := range dv.applied {
		fmt.Fprintf(&b, "DEVIRTUALISED (extract/go2lean/devirt.go): %s\n", a)
	}
	for _, a := range cc.applied {
		fmt.Fprintf(&b, "REWRITTEN: %s\n", a)
	}
	b.WriteString("-/\nset_option linter.unusedVariables false\n")
	fmt.Fprintf(&b, "namespace %s\nopen AlgoVerif\n\n", *ns)
	b.WriteString(body)
	fmt.Fprintf(&b, "end %s\n", *ns)
	writeIfChanged(*out, b.String())
}

func writeIfChanged(path, content string) {
	if old, err := os.ReadFile(path); err == nil && string(old) == content {
		fmt.Println("go2lean: unchanged", path)
		return
	}
	if err := os.MkdirAll(filepath.Dir(path), 0o755); err != nil {
		die("%v", err)
	}
	if err := os.WriteFile(path, []byte(content), 0o644); err != nil {
		die("%v", err)
	}
	fmt.Println("go2lean: wrote", path)
}
