// Command go2lean translates a restricted subset of Go function and method bodies into Lean 4
// definitions, so that a Lean Model of the code can be REGENERATED from /repo's source on every check
// run (bin/pre-Cxx) and the theorems are re-checked against what the code says now.
//
// Usage:
//
//	go2lean -repo /repo -pkg unionfind -files unionfind.go -ns AlgoVerif.Generated.UnionFind \
//	        -out /verif/lean/AlgoVerif/Generated/C17Gen.lean [-skip Name,Recv.Method,…]
//
// Every function and method declared in the named files is translated, except those listed in -skip
// (the generated header names them).  A construct outside the subset makes the program print
// "go2lean: file:line:col: unsupported: <construct>" and exit 1 WITHOUT writing anything: nothing is
// skipped silently and nothing is approximated.  Output is deterministic (source order, no map
// iteration) and the file is rewritten only when its content changes.
//
// # The subset and the translation scheme
//
// Types.  int → Int (UNBOUNDED: integer overflow is NOT modelled), bool → Bool, []T → Array T,
// a type parameter T → a Lean type variable with an `Inhabited` instance whose `default` stands for
// Go's zero value of T, func types → Lean function types (function VALUES — comparators such as
// generic.CompareFunc[T] = func(T, T) int, generic.EqualFunc[T] — are pure total functions), a struct
// whose fields have such types → a `structure`, *S for a struct S of the package → S.
//
// No aliasing.  Slices, structs and pointers are VALUES in the translation.  That is sound only because the
// subset cannot create two names for one mutable object, and the translator refuses everything that could:
//   - a pointer *S may occur only as a method receiver, as the `&S{…}` literal of a return statement, as
//     the result of a constructor (also when declared as an interface), and as a local variable that
//     receives such a fresh result (`a := newS(…)`); no pointer-typed parameters or fields (so no linked
//     structures: list/stack.go, list/queue.go are out — queue.go even keeps two pointers into one chain
//     and stores through one of them);
//   - a pointer *R to a struct R of ANOTHER package (generic.KeyValue[K, V]) is an `Option R`: the translated
//     code has no way to assign to R's fields (stores go only through structs of the translated package), so
//     such records are immutable and sharing them is unobservable; `nil` is `none`, `p == nil` / `p != nil`
//     are `isNone` / `isSome` (no other pointer comparison), `p.f` dereferences (`Go.deref`: nil panics),
//     `&R{…}` is `some {…}`;
//   - an existing slice or struct is never stored a second time (`b := a`, `s.f = a`, `return s.f`,
//     `t := *s` are rejected); only a LOCAL variable may be given up: in a return statement / returned
//     literal, or in an assignment outside any loop after which the function never mentions it again
//     (`newH := make(…); copy(newH, h.heap); h.heap = newH`);
//   - a slice parameter is never reassigned as a whole (Go would not show that to the caller);
//   - a slice that a callee modifies does not reach it twice (two arguments, or argument + receiver);
//   - slices grow only in place: `x = append(x, v)` → `x.push v` (with no second reference to x's array,
//     whether Go reallocates is unobservable); `append([]T{…}, s...)` builds a fresh slice; `copy(dst, src)`,
//     `copy(dst[l:h], src[l2:h2])` store into dst; a slice EXPRESSION s[l:h] is allowed only as the source
//     of copy / append; no package-level variables, maps, strings, floats, channels, closures, defer, goto.
//
// Functions.  `func (u *S) M(p int) (int, bool)` → `def S.M [(fuel : Nat)] (u : S) (p : Int) :
// Outcome (… )`.  A function is PURE (plain result type, no Outcome) when it has no indexing, loop,
// make, non-constant division, recursion, and calls only pure functions; otherwise its result is in
// the `Outcome` monad of AlgoVerif/Common.lean (ok / panic / diverge).  What a call changes in its
// caller comes back in the result: the result tuple is (receiver if the method assigns to it or to
// its fields/elements, every slice parameter whose elements it assigns, the declared results), in
// that order.  A constructor whose declared result is an interface and whose every `return` gives
// `&S{…}` returns S.
//
// Statements.  Bodies become Lean `do` blocks: a local variable is a `let mut` (always with its Go
// type), assignment (also tuple-, op-assignment, ++/--) is reassignment, `u.f = e` is
// `u := { u with f := e }`, `s[i] = e` goes through the bounds-checked `Go.setIdx`, if/else (with
// init statement), tagless switch (an else-if chain, evaluated case by case), block, early `return`
// are the `do` notation's own.  Evaluation order is Go's: every sub-expression that can panic
// (`s[i]` → `Go.idx`, make, division, slice expression, call of a non-pure translated function) is bound
// to a temporary `tN_` by a preceding `let tN_ ← …`, left to right; the right operand of && / || is
// evaluated only when Go evaluates it; in an assignment the index operands and the right-hand sides
// are evaluated first, then the stores happen left to right.
//
// Loops.  Each loop becomes a separate recursive definition `F.loopN` over the variables it assigns
// (the loop state; the other variables it mentions are parameters), structurally recursive on a
// leading Nat:
//
//   - COUNTED loops — `for i := range s`, `for i := range n`, and `for i := a; i < b; i++`
//     (also `<=`, and `i--` with `>` / `>=`) where `i` is not assigned in the body and nothing `b`
//     reads is assigned in the body (`len(s)` is unaffected by element stores) — recurse on the trip
//     count `(b - a).toNat` (computed once, before the loop) and cannot diverge;
//   - every OTHER loop — `for cond { … }`, `for init; cond; post { … }` — takes FUEL: one unit per
//     evaluation of the condition, `Outcome.diverge` when it runs out.  A function that contains such
//     a loop, or is recursive, or calls such a function, gets a leading parameter `(fuel : Nat)`
//     which it hands to each of its loops / callees unchanged; a recursive function recurses
//     structurally on its fuel (one unit per call).  The CALLER chooses the fuel; the theorems about
//     the generated definitions say which fuel suffices (e.g. `len(u.root)` for union-find's Find).
//
// `break` leaves the loop with the current state, `continue` runs the post statement and goes on; a loop
// whose body contains `return` yields `Go.Ctl.ret r` (r = the function's result) instead of
// `Go.Ctl.next state`, and its caller returns r / goes on with the state.  `for i, v := range s` reads
// `v := s[i]` at the start of each iteration; the range expression is evaluated once (its length is the trip
// count) and the body may not reassign it.  Labels are not supported.
//
// # Trusted
//
// This program; AlgoVerif/Model/GoRt.lean (the Lean reading of indexing, make, division, copy);
// Lean's `do` notation; and Go's semantics of exactly the constructs above.  Not modelled: integer
// overflow (int is unbounded), memory exhaustion, goroutines.
package main

import (
	"flag"
	"fmt"
	"go/ast"
	"go/importer"
	"go/parser"
	"go/token"
	"go/types"
	"os"
	"path/filepath"
	"sort"
	"strings"
)

func die(format string, a ...any) {
	fmt.Fprintf(os.Stderr, "go2lean: "+format+"\n", a...)
	os.Exit(1)
}

// modImporter type-checks packages of /repo's own module from source (imports inside the module),
// and the standard library from GOROOT's source.
type modImporter struct {
	repo, modpath string
	fset          *token.FileSet
	cache         map[string]*types.Package
	std           types.Importer
}

func (m *modImporter) Import(path string) (*types.Package, error) {
	if p, ok := m.cache[path]; ok {
		return p, nil
	}
	if path != m.modpath && !strings.HasPrefix(path, m.modpath+"/") {
		return m.std.Import(path)
	}
	files, err := parseDir(m.fset, filepath.Join(m.repo, strings.TrimPrefix(strings.TrimPrefix(path, m.modpath), "/")))
	if err != nil {
		return nil, err
	}
	cfg := types.Config{Importer: m, Error: func(error) {}} // only the exported signatures are needed
	p, _ := cfg.Check(path, m.fset, files, nil)
	m.cache[path] = p
	return p, nil
}

// parseDir parses the non-test, non-hook Go files of a directory in name order.
func parseDir(fset *token.FileSet, dir string) ([]*ast.File, error) {
	ents, err := os.ReadDir(dir)
	if err != nil {
		return nil, err
	}
	var names []string
	for _, e := range ents {
		n := e.Name()
		if strings.HasSuffix(n, ".go") && !strings.HasSuffix(n, "_test.go") && !strings.HasSuffix(n, "_verif.go") {
			names = append(names, n)
		}
	}
	sort.Strings(names)
	var files []*ast.File
	for _, n := range names {
		f, err := parser.ParseFile(fset, filepath.Join(dir, n), nil, parser.ParseComments)
		if err != nil {
			return nil, err
		}
		files = append(files, f)
	}
	return files, nil
}

func modulePath(repo string) string {
	b, err := os.ReadFile(filepath.Join(repo, "go.mod"))
	if err != nil {
		die("%v", err)
	}
	for _, l := range strings.Split(string(b), "\n") {
		if f := strings.Fields(l); len(f) == 2 && f[0] == "module" {
			return f[1]
		}
	}
	die("no module line in %s/go.mod", repo)
	return ""
}

func main() {
	repo := flag.String("repo", "/repo", "repository root")
	pkgDir := flag.String("pkg", "", "package directory relative to the repository root")
	fileList := flag.String("files", "", "comma-separated files of the package whose functions are translated")
	skipList := flag.String("skip", "", "comma-separated functions (Name or Recv.Method) NOT translated")
	ns := flag.String("ns", "", "Lean namespace of the generated definitions")
	out := flag.String("out", "", "output .lean file")
	flag.Parse()
	if *pkgDir == "" || *fileList == "" || *ns == "" || *out == "" {
		die("-pkg, -files, -ns and -out are required")
	}

	fset := token.NewFileSet()
	files, err := parseDir(fset, filepath.Join(*repo, *pkgDir))
	if err != nil {
		die("%v", err)
	}
	mod := modulePath(*repo)
	imp := &modImporter{repo: *repo, modpath: mod, fset: fset, cache: map[string]*types.Package{},
		std: importer.ForCompiler(fset, "source", nil)}
	info := &types.Info{
		Types:     map[ast.Expr]types.TypeAndValue{},
		Defs:      map[*ast.Ident]types.Object{},
		Uses:      map[*ast.Ident]types.Object{},
		Instances: map[*ast.Ident]types.Instance{},
	}
	want := map[string]bool{}
	for _, f := range strings.Split(*fileList, ",") {
		want[strings.TrimSpace(f)] = true
	}
	var typeErrs []string
	cfg := types.Config{Importer: imp, Error: func(e error) {
		// a type error matters only if it is in a file we translate (other files may import packages
		// that cannot be loaded offline); an untyped expression in a translated body fails loudly later
		if te, ok := e.(types.Error); ok && want[filepath.Base(te.Fset.Position(te.Pos).Filename)] {
			typeErrs = append(typeErrs, e.Error())
		}
	}}
	pkg, _ := cfg.Check(mod+"/"+*pkgDir, fset, files, info)
	if len(typeErrs) > 0 {
		die("type errors in the files to translate:\n  %s", strings.Join(typeErrs, "\n  "))
	}

	t := &translator{fset: fset, info: info, pkg: pkg, ns: *ns, fns: map[*types.Func]*fn{}, skipped: map[string]bool{}}
	for _, s := range strings.Split(*skipList, ",") {
		if s = strings.TrimSpace(s); s != "" {
			t.skipped[s] = false // becomes true when a declaration of that name is seen
		}
	}
	var srcs []string
	for _, f := range files {
		name := filepath.Base(fset.Position(f.Pos()).Filename)
		if !want[name] {
			continue
		}
		delete(want, name)
		srcs = append(srcs, *pkgDir+"/"+name)
		t.collect(f)
	}
	for name := range want {
		die("file %s not found in %s/%s", name, *repo, *pkgDir)
	}
	var skippedNames []string
	for name, seen := range t.skipped {
		if !seen {
			die("-skip %s: no such function in the translated files", name)
		}
		skippedNames = append(skippedNames, name)
	}
	sort.Strings(skippedNames)

	t.analyze()
	body := t.emitAll()

	var b strings.Builder
	b.WriteString("import AlgoVerif.Model.GoRt\n")
	fmt.Fprintf(&b, "/-! GENERATED by /verif/extract/go2lean from %s — do not edit; rewritten on every check run.\n", strings.Join(srcs, ", "))
	b.WriteString("Scheme and subset: see the header of /verif/extract/go2lean/main.go; runtime: AlgoVerif/Model/GoRt.lean.\n")
	b.WriteString("Go `int` is the unbounded `Int` (overflow is not modelled).\n")
	if len(skippedNames) > 0 {
		fmt.Fprintf(&b, "NOT translated (excluded by the caller with -skip): %s\n", strings.Join(skippedNames, ", "))
	}
	b.WriteString("-/\nset_option linter.unusedVariables false\n")
	fmt.Fprintf(&b, "namespace %s\nopen AlgoVerif\n\n", *ns)
	b.WriteString(body)
	fmt.Fprintf(&b, "end %s\n", *ns)
	writeIfChanged(*out, b.String())
}

func writeIfChanged(path, content string) {
	if old, err := os.ReadFile(path); err == nil && string(old) == content {
		fmt.Println("go2lean: unchanged", path)
		return
	}
	if err := os.MkdirAll(filepath.Dir(path), 0o755); err != nil {
		die("%v", err)
	}
	if err := os.WriteFile(path, []byte(content), 0o644); err != nil {
		die("%v", err)
	}
	fmt.Println("go2lean: wrote", path)
}
