package main

// Closure conversion: a mechanical rewriting of the parsed source, BEFORE it is type-checked for translation (in the
// same fixpoint loop as devirt.go), for the one closure shape of symboltable's open-addressing tables — a GENERATOR:
//
//	func (ht *T) probe(key K) func() int {
//		…straight-line code declaring h1, M, i, next…
//		return func() int { …reads and writes h1, M, i, next… }
//	}
//	…
//	next := ht.probe(key)
//	for i := next(); …; i = next() { … }
//
// is rewritten to
//
//	type T_probeEnv struct{ h1, M, i, next uint64 }                    // the captured variables
//	func (ht *T) probe(key K) *T_probeEnv { …; return &T_probeEnv{h1: h1, M: M, i: i, next: next} }
//	func (env_ *T_probeEnv) call() int { …the literal's body with v replaced by env_.v… }
//	…
//	next := ht.probe(key)
//	for i := next.call(); …; i = next.call() { … }
//
// after which the ordinary rules of the translator apply (a constructor returning a fresh `&S{…}`, a local variable that
// receives it, a method that modifies its receiver).  Why this changes nothing:
//   - the function literal is the operand of the LAST statement of the generator, its only `return`, and the only
//     function literal in it: once the generator has returned, nothing but the closure can reach the captured
//     variables, so "captured by reference" and "a record holding their current values, owned by the closure" are the
//     same thing; every captured variable is a local variable or parameter of the generator of a BASIC type (a captured
//     receiver, slice or struct would be a second reference to it: not converted);
//   - running the closure is running the literal's body on those variables: the method `call` on the record;
//   - at every use in a translated function the generator's result is bound by `x := g(…)` to a NEW local variable which
//     is then used in no other way than `x()`: the closure value is never copied, passed, stored, returned or compared,
//     so the record has exactly one owner and a call is an in-place update of it.
// A generator or a use that does not fit is left alone (and the translator then refuses the closure as before).

import (
	"go/ast"
	"go/token"
	"go/types"
	"reflect"
)

type closureConv struct {
	files   []*ast.File
	skipped func(fd *ast.FuncDecl) bool
	done    map[*ast.FuncDecl]bool
	applied []string
}

var (
	exprType   = reflect.TypeOf((*ast.Expr)(nil)).Elem()
	objectType = reflect.TypeOf((*ast.Object)(nil))
	scopeType  = reflect.TypeOf((*ast.Scope)(nil))
)

// replaceExprs replaces, everywhere below n, each expression e held in a slot of static type ast.Expr by f(e).
func replaceExprs(n ast.Node, f func(ast.Expr) ast.Expr) { walkValue(reflect.ValueOf(n), f) }

func walkValue(v reflect.Value, f func(ast.Expr) ast.Expr) {
	switch v.Kind() {
	case reflect.Ptr:
		if v.IsNil() || v.Type() == objectType || v.Type() == scopeType {
			return
		}
		walkValue(v.Elem(), f)
	case reflect.Interface:
		if !v.IsNil() {
			walkValue(v.Elem(), f)
		}
	case reflect.Struct:
		for i := 0; i < v.NumField(); i++ {
			walkSlot(v.Field(i), f)
		}
	case reflect.Slice:
		for i := 0; i < v.Len(); i++ {
			walkSlot(v.Index(i), f)
		}
	}
}

func walkSlot(s reflect.Value, f func(ast.Expr) ast.Expr) {
	if s.Type() == exprType && s.CanSet() && !s.IsNil() {
		old := s.Interface().(ast.Expr)
		if ne := f(old); ne != old {
			s.Set(reflect.ValueOf(ne))
			return
		}
	}
	walkValue(s, f)
}

// generator: the shape above; returns the literal and the element type of its single result
func generatorShape(fd *ast.FuncDecl) (*ast.FuncLit, ast.Expr) {
	if fd.Body == nil || fd.Type.Results == nil || len(fd.Type.Results.List) != 1 || len(fd.Type.Results.List[0].Names) > 1 {
		return nil, nil
	}
	ft, ok := fd.Type.Results.List[0].Type.(*ast.FuncType)
	if !ok || (ft.Params != nil && len(ft.Params.List) > 0) || ft.Results == nil || len(ft.Results.List) != 1 || len(ft.Results.List[0].Names) > 0 {
		return nil, nil
	}
	n := len(fd.Body.List)
	if n == 0 {
		return nil, nil
	}
	ret, ok := fd.Body.List[n-1].(*ast.ReturnStmt)
	if !ok || len(ret.Results) != 1 {
		return nil, nil
	}
	lit, ok := ret.Results[0].(*ast.FuncLit)
	if !ok {
		return nil, nil
	}
	fine := true
	ast.Inspect(fd.Body, func(m ast.Node) bool {
		switch x := m.(type) {
		case *ast.FuncLit:
			if x != lit {
				fine = false
			}
			return x == lit && false // (do not descend: the literal's own returns are its business)
		case *ast.ReturnStmt:
			if x != ret {
				fine = false
			}
		case *ast.GoStmt, *ast.DeferStmt:
			fine = false
		}
		return fine
	})
	ast.Inspect(lit.Body, func(m ast.Node) bool { // no nested literal inside the closure
		if _, isLit := m.(*ast.FuncLit); isLit {
			fine = false
		}
		return fine
	})
	if !fine {
		return nil, nil
	}
	return lit, ft.Results.List[0].Type
}

// convert applies the rewriting wherever it fits; reports whether anything changed (the caller type-checks again).
func (cc *closureConv) convert(info *types.Info) bool {
	changed := false
	for _, file := range cc.files {
		for _, dcl := range append([]ast.Decl{}, file.Decls...) {
			fd, ok := dcl.(*ast.FuncDecl)
			if !ok || cc.done[fd] || cc.skipped(fd) {
				continue
			}
			lit, resType := generatorShape(fd)
			if lit == nil {
				continue
			}
			gen, _ := info.Defs[fd.Name].(*types.Func)
			if gen == nil {
				continue
			}
			// captured variables, in order of declaration
			var captured []*types.Var
			okCap := true
			ast.Inspect(lit.Body, func(m ast.Node) bool {
				id, isId := m.(*ast.Ident)
				if !isId {
					return true
				}
				v, isVar := info.Uses[id].(*types.Var)
				if !isVar || v.IsField() || !(fd.Pos() <= v.Pos() && v.Pos() < lit.Pos()) {
					return true
				}
				if b, isBasic := types.Unalias(v.Type()).(*types.Basic); !isBasic || b.Info()&types.IsUntyped != 0 {
					okCap = false
				}
				for _, c := range captured {
					if c == v {
						return true
					}
				}
				captured = append(captured, v)
				return true
			})
			if !okCap || len(captured) == 0 {
				continue
			}
			for i := range captured { // declaration order
				for j := i + 1; j < len(captured); j++ {
					if captured[j].Pos() < captured[i].Pos() {
						captured[i], captured[j] = captured[j], captured[i]
					}
				}
			}
			// every use of the generator in a translated function: x := g(…), and x only ever called
			var callSites []*ast.CallExpr
			okUse := true
			for _, f2 := range cc.files {
				for _, d2 := range f2.Decls {
					fd2, isFn := d2.(*ast.FuncDecl)
					if !isFn || fd2.Body == nil || cc.skipped(fd2) {
						continue
					}
					bound := map[*types.Var]bool{}
					okHere := map[*ast.Ident]bool{} // uses of the generator / of a bound variable that are in an accepted position
					ast.Inspect(fd2.Body, func(m ast.Node) bool {
						switch x := m.(type) {
						case *ast.AssignStmt:
							if x.Tok == token.DEFINE && len(x.Lhs) == 1 && len(x.Rhs) == 1 {
								if call, isCall := x.Rhs[0].(*ast.CallExpr); isCall {
									var fid *ast.Ident
									switch fn := call.Fun.(type) {
									case *ast.Ident:
										fid = fn
									case *ast.SelectorExpr:
										fid = fn.Sel
									}
									if lhs, isId := x.Lhs[0].(*ast.Ident); isId && fid != nil {
										if f, _ := info.Uses[fid].(*types.Func); f != nil && f.Origin() == gen.Origin() {
											if v, _ := info.Defs[lhs].(*types.Var); v != nil {
												bound[v] = true
												okHere[fid] = true
											}
										}
									}
								}
							}
						case *ast.CallExpr:
							if id, isId := x.Fun.(*ast.Ident); isId && len(x.Args) == 0 {
								if v, _ := info.Uses[id].(*types.Var); v != nil && bound[v] {
									okHere[id] = true
									callSites = append(callSites, x)
								}
							}
						}
						return true
					})
					ast.Inspect(fd2.Body, func(m ast.Node) bool {
						if id, isId := m.(*ast.Ident); isId && !okHere[id] {
							if f, _ := info.Uses[id].(*types.Func); f != nil && f.Origin() == gen.Origin() {
								okUse = false
							}
							if v, _ := info.Uses[id].(*types.Var); v != nil && bound[v] {
								okUse = false
							}
						}
						return okUse
					})
				}
			}
			if !okUse {
				continue
			}
			// ---- rewrite
			envName := fd.Name.Name + "Env"
			if fd.Recv != nil {
				envName = recvTypeName(fd) + "_" + envName
			}
			isCap := map[*types.Var]bool{}
			var fields []*ast.Field
			var inits []ast.Expr
			for _, v := range captured {
				isCap[v] = true
				fields = append(fields, &ast.Field{Names: []*ast.Ident{ast.NewIdent(v.Name())}, Type: ast.NewIdent(types.Unalias(v.Type()).(*types.Basic).Name())})
				inits = append(inits, &ast.KeyValueExpr{Key: ast.NewIdent(v.Name()), Value: ast.NewIdent(v.Name())})
			}
			file.Decls = append(file.Decls, &ast.GenDecl{Tok: token.TYPE, Specs: []ast.Spec{&ast.TypeSpec{Name: ast.NewIdent(envName),
				Type: &ast.StructType{Fields: &ast.FieldList{List: fields}}}}})
			replaceExprs(lit.Body, func(e ast.Expr) ast.Expr {
				if id, isId := e.(*ast.Ident); isId {
					if v, _ := info.Uses[id].(*types.Var); v != nil && isCap[v] {
						return &ast.SelectorExpr{X: ast.NewIdent("env_"), Sel: ast.NewIdent(v.Name())}
					}
				}
				return e
			})
			file.Decls = append(file.Decls, &ast.FuncDecl{
				Recv: &ast.FieldList{List: []*ast.Field{{Names: []*ast.Ident{ast.NewIdent("env_")}, Type: &ast.StarExpr{X: ast.NewIdent(envName)}}}},
				Name: ast.NewIdent("call"),
				Type: &ast.FuncType{Params: &ast.FieldList{}, Results: &ast.FieldList{List: []*ast.Field{{Type: resType}}}},
				Body: lit.Body,
			})
			fd.Type.Results.List[0].Type = &ast.StarExpr{X: ast.NewIdent(envName)}
			fd.Body.List[len(fd.Body.List)-1] = &ast.ReturnStmt{Results: []ast.Expr{&ast.UnaryExpr{Op: token.AND,
				X: &ast.CompositeLit{Type: ast.NewIdent(envName), Elts: inits}}}}
			for _, c := range callSites {
				c.Fun = &ast.SelectorExpr{X: c.Fun, Sel: ast.NewIdent("call")}
			}
			cc.done[fd] = true
			name := fd.Name.Name
			if fd.Recv != nil {
				name = recvTypeName(fd) + "." + name
			}
			cc.applied = append(cc.applied, "closure conversion (extract/go2lean/closure.go): "+name+" returns the record "+envName+" of the variables its closure captures; calling the closure is "+envName+".call")
			changed = true
		}
	}
	return changed
}
