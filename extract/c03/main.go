// Command c03extract regenerates lean/AlgoVerif/Generated/C03CallSites.lean: the table of EVERY call of
// NewQuadraticHashTable / NewDoubleHashTable / NewLinearHashTable / NewChainHashTable in the non-test Go source
// of the repository, with the options each call passes, evaluated statically:
//
//   - a site is identified by file, enclosing top-level function (methods as Type.method; a package-level
//     variable initialiser as `var name`) and the ordinal of the call inside that function — no line numbers;
//   - the HashOpts argument must be a composite literal `[symboltable.]HashOpts{…}` (or a local variable that is
//     defined exactly once by such a literal, or declared without a value, and is never assigned, never has a
//     field assigned and never has its address taken); its fields must be integer / decimal literals (or
//     package-level constants of the same package defined by such literals); decimals are emitted as exact
//     rationals read from the literal text; an absent field is `dflt`;
//   - inside a method of the very struct the constructor builds (package symboltable: resize, SelectMatch,
//     PartitionMatch) the fields may be the receiver's own `minLF` / `maxLF` (emitted as recvMin / recvMax) and,
//     in a method named resize, the capacity may be that method's parameter (resizeArg): the new table inherits
//     the bounds of a table that exists already;
//   - anything else is emitted as `unknown`, and the theorem C03_repo_callsites_valid (Props/C03.lean, proved by
//     `decide`) does not hold for a table with an `unknown` entry.
//
// go/parser only (no type checking, no network). The file is written only when its content changes.
package main

import (
	"flag"
	"fmt"
	"go/ast"
	"go/parser"
	"go/token"
	"math/big"
	"os"
	"path/filepath"
	"sort"
	"strconv"
	"strings"
)

func die(format string, a ...any) {
	fmt.Fprintf(os.Stderr, "c03extract: "+format+"\n", a...)
	os.Exit(1)
}

var ctors = map[string]string{
	"NewQuadraticHashTable": "quadratic",
	"NewDoubleHashTable":    "double",
	"NewLinearHashTable":    "linear",
	"NewChainHashTable":     "chain",
}

type site struct {
	file, fn      string
	idx           int
	ctor          string
	internal      bool
	cap, min, max string // Lean terms of type C03Cap / C03LF
}

// ---------------------------------------------------------------- small AST helpers

func unparen(e ast.Expr) ast.Expr {
	for {
		p, ok := e.(*ast.ParenExpr)
		if !ok {
			return e
		}
		e = p.X
	}
}

// calleeName strips explicit type arguments and a package qualifier: symboltable.NewX[K, V] -> NewX
func calleeName(e ast.Expr) string {
	e = unparen(e)
	switch x := e.(type) {
	case *ast.IndexExpr:
		return calleeName(x.X)
	case *ast.IndexListExpr:
		return calleeName(x.X)
	case *ast.SelectorExpr:
		return x.Sel.Name
	case *ast.Ident:
		return x.Name
	}
	return ""
}

func typeBaseName(e ast.Expr) string {
	e = unparen(e)
	switch x := e.(type) {
	case *ast.StarExpr:
		return typeBaseName(x.X)
	case *ast.IndexExpr:
		return typeBaseName(x.X)
	case *ast.IndexListExpr:
		return typeBaseName(x.X)
	case *ast.SelectorExpr:
		return x.Sel.Name
	case *ast.Ident:
		return x.Name
	}
	return ""
}

// ---------------------------------------------------------------- per-package facts

type pkgInfo struct {
	consts map[string]ast.Expr // package-level constants defined by a single expression
}

func collectConsts(files []*ast.File) map[string]ast.Expr {
	m := map[string]ast.Expr{}
	for _, f := range files {
		for _, d := range f.Decls {
			gd, ok := d.(*ast.GenDecl)
			if !ok || gd.Tok != token.CONST {
				continue
			}
			for _, sp := range gd.Specs {
				vs := sp.(*ast.ValueSpec)
				for i, n := range vs.Names {
					if i < len(vs.Values) {
						m[n.Name] = vs.Values[i]
					}
				}
			}
		}
	}
	return m
}

// ---------------------------------------------------------------- evaluation of the options

type ctx struct {
	pkg      *pkgInfo
	fd       *ast.FuncDecl // enclosing function (nil for a package-level initialiser)
	internal bool          // fd is a method of the struct the called constructor builds
	recv     string        // receiver identifier of fd ("" if none)
}

func (c *ctx) number(e ast.Expr, depth int) (*big.Rat, bool) {
	e = unparen(e)
	switch x := e.(type) {
	case *ast.BasicLit:
		if x.Kind != token.INT && x.Kind != token.FLOAT {
			return nil, false
		}
		txt := strings.ReplaceAll(x.Value, "_", "")
		if strings.HasPrefix(txt, "0x") || strings.HasPrefix(txt, "0X") || strings.ContainsAny(txt, "pP") {
			if x.Kind == token.INT {
				if v, err := strconv.ParseInt(txt, 0, 64); err == nil {
					return new(big.Rat).SetInt64(v), true
				}
			}
			return nil, false
		}
		if x.Kind == token.INT && len(txt) > 1 && txt[0] == '0' { // octal / binary
			if v, err := strconv.ParseInt(txt, 0, 64); err == nil {
				return new(big.Rat).SetInt64(v), true
			}
			return nil, false
		}
		r, ok := new(big.Rat).SetString(txt)
		return r, ok
	case *ast.CallExpr: // float32(0.5), int(31)
		if id, ok := unparen(x.Fun).(*ast.Ident); ok && len(x.Args) == 1 {
			switch id.Name {
			case "float32", "float64", "int":
				return c.number(x.Args[0], depth)
			}
		}
	case *ast.Ident:
		if depth < 4 && c.fd != nil && !shadowed(c.fd, x.Name) {
			if def, ok := c.pkg.consts[x.Name]; ok {
				return c.number(def, depth+1)
			}
		}
	}
	return nil, false
}

// shadowed: the function declares (parameter, :=, var, const) an identifier of that name
func shadowed(fd *ast.FuncDecl, name string) bool {
	found := false
	if fd.Type.Params != nil {
		for _, p := range fd.Type.Params.List {
			for _, n := range p.Names {
				if n.Name == name {
					found = true
				}
			}
		}
	}
	ast.Inspect(fd.Body, func(n ast.Node) bool {
		switch x := n.(type) {
		case *ast.AssignStmt:
			if x.Tok == token.DEFINE {
				for _, l := range x.Lhs {
					if id, ok := l.(*ast.Ident); ok && id.Name == name {
						found = true
					}
				}
			}
		case *ast.ValueSpec:
			for _, id := range x.Names {
				if id.Name == name {
					found = true
				}
			}
		case *ast.RangeStmt:
			for _, l := range []ast.Expr{x.Key, x.Value} {
				if id, ok := l.(*ast.Ident); ok && id.Name == name && x.Tok == token.DEFINE {
					found = true
				}
			}
		}
		return true
	})
	return found
}

func (c *ctx) evalCap(e ast.Expr) string {
	if e == nil {
		return ".dflt"
	}
	e = unparen(e)
	if id, ok := e.(*ast.Ident); ok && c.internal && c.fd != nil && c.fd.Name.Name == "resize" && c.fd.Type.Params != nil {
		for _, p := range c.fd.Type.Params.List {
			for _, n := range p.Names {
				if n.Name == id.Name {
					return ".resizeArg"
				}
			}
		}
	}
	if r, ok := c.number(e, 0); ok && r.IsInt() && r.Sign() >= 0 {
		return fmt.Sprintf(".lit %s", r.Num().String())
	}
	return ".unknown"
}

func (c *ctx) evalLF(e ast.Expr) string {
	if e == nil {
		return ".dflt"
	}
	e = unparen(e)
	if sel, ok := e.(*ast.SelectorExpr); ok && c.internal && c.recv != "" {
		if id, ok := unparen(sel.X).(*ast.Ident); ok && id.Name == c.recv {
			switch sel.Sel.Name {
			case "minLF":
				return ".recvMin"
			case "maxLF":
				return ".recvMax"
			}
		}
	}
	if r, ok := c.number(e, 0); ok && r.Sign() >= 0 {
		return fmt.Sprintf(".lit %s %s", r.Num().String(), r.Denom().String())
	}
	return ".unknown"
}

func isHashOptsType(e ast.Expr) bool { return e != nil && typeBaseName(e) == "HashOpts" }

// literal evaluates a composite literal HashOpts{…}
func (c *ctx) literal(cl *ast.CompositeLit) (cp, mn, mx string, ok bool) {
	if !isHashOptsType(cl.Type) {
		return
	}
	var fc, fmin, fmax ast.Expr
	for i, el := range cl.Elts {
		if kv, isKV := el.(*ast.KeyValueExpr); isKV {
			k, _ := kv.Key.(*ast.Ident)
			if k == nil {
				return
			}
			switch k.Name {
			case "InitialCap":
				fc = kv.Value
			case "MinLoadFactor":
				fmin = kv.Value
			case "MaxLoadFactor":
				fmax = kv.Value
			default:
				return // a field this translator does not know
			}
		} else {
			if len(cl.Elts) != 3 {
				return
			}
			switch i {
			case 0:
				fc = el
			case 1:
				fmin = el
			case 2:
				fmax = el
			}
		}
	}
	return c.evalCap(fc), c.evalLF(fmin), c.evalLF(fmax), true
}

// options evaluates the HashOpts argument of a constructor call
func (c *ctx) options(e ast.Expr) (cp, mn, mx string) {
	unknown := func() (string, string, string) { return ".unknown", ".unknown", ".unknown" }
	e = unparen(e)
	switch x := e.(type) {
	case *ast.CompositeLit:
		if a, b, d, ok := c.literal(x); ok {
			return a, b, d
		}
	case *ast.Ident:
		if c.fd == nil {
			return unknown()
		}
		var defs []ast.Expr // defining expressions (nil entry = declared without a value)
		ndefs, tainted := 0, false
		for _, p := range c.fd.Type.Params.List {
			for _, n := range p.Names {
				if n.Name == x.Name {
					tainted = true // a parameter: the caller chooses
				}
			}
		}
		ast.Inspect(c.fd.Body, func(n ast.Node) bool {
			switch s := n.(type) {
			case *ast.AssignStmt:
				for i, l := range s.Lhs {
					l = unparen(l)
					if id, ok := l.(*ast.Ident); ok && id.Name == x.Name {
						if s.Tok == token.DEFINE && len(s.Lhs) == len(s.Rhs) {
							ndefs++
							defs = append(defs, s.Rhs[i])
						} else {
							tainted = true
						}
					}
					if sel, ok := l.(*ast.SelectorExpr); ok {
						if id, ok := unparen(sel.X).(*ast.Ident); ok && id.Name == x.Name {
							tainted = true
						}
					}
				}
			case *ast.IncDecStmt:
				if sel, ok := unparen(s.X).(*ast.SelectorExpr); ok {
					if id, ok := unparen(sel.X).(*ast.Ident); ok && id.Name == x.Name {
						tainted = true
					}
				}
			case *ast.UnaryExpr:
				if s.Op == token.AND {
					y := unparen(s.X)
					if sel, ok := y.(*ast.SelectorExpr); ok {
						y = unparen(sel.X)
					}
					if id, ok := y.(*ast.Ident); ok && id.Name == x.Name {
						tainted = true
					}
				}
			case *ast.ValueSpec:
				for i, id := range s.Names {
					if id.Name == x.Name {
						ndefs++
						if i < len(s.Values) {
							defs = append(defs, s.Values[i])
						} else if isHashOptsType(s.Type) {
							defs = append(defs, nil)
						} else {
							tainted = true
						}
					}
				}
			case *ast.RangeStmt:
				for _, l := range []ast.Expr{s.Key, s.Value} {
					if id, ok := l.(*ast.Ident); ok && id.Name == x.Name {
						tainted = true
					}
				}
			}
			return true
		})
		if tainted || ndefs != 1 || len(defs) != 1 {
			return unknown()
		}
		if defs[0] == nil {
			return ".dflt", ".dflt", ".dflt"
		}
		if cl, ok := unparen(defs[0]).(*ast.CompositeLit); ok {
			if a, b, d, ok := c.literal(cl); ok {
				return a, b, d
			}
		}
	}
	return unknown()
}

// ---------------------------------------------------------------- main

func main() {
	repo := flag.String("repo", "/repo", "repository root")
	out := flag.String("out", "/verif/lean/AlgoVerif/Generated/C03CallSites.lean", "output file")
	flag.Parse()

	// all non-test Go files, grouped by directory (= package)
	byDir := map[string][]string{}
	err := filepath.WalkDir(*repo, func(p string, d os.DirEntry, err error) error {
		if err != nil {
			return err
		}
		if d.IsDir() {
			n := d.Name()
			if p != *repo && (strings.HasPrefix(n, ".") || n == "vendor" || n == "testdata") {
				return filepath.SkipDir
			}
			return nil
		}
		if strings.HasSuffix(p, ".go") && !strings.HasSuffix(p, "_test.go") {
			byDir[filepath.Dir(p)] = append(byDir[filepath.Dir(p)], p)
		}
		return nil
	})
	if err != nil {
		die("%v", err)
	}
	dirs := make([]string, 0, len(byDir))
	for d := range byDir {
		dirs = append(dirs, d)
	}
	sort.Strings(dirs)

	fset := token.NewFileSet()
	parsed := map[string][]*ast.File{}
	names := map[*ast.File]string{}
	nfiles := 0
	for _, d := range dirs {
		sort.Strings(byDir[d])
		for _, p := range byDir[d] {
			f, err := parser.ParseFile(fset, p, nil, parser.SkipObjectResolution)
			if err != nil {
				die("%v", err)
			}
			rel, _ := filepath.Rel(*repo, p)
			names[f] = filepath.ToSlash(rel)
			parsed[d] = append(parsed[d], f)
			nfiles++
		}
	}

	// the struct each constructor builds: `return &X[K, V]{…}` in package symboltable
	built := map[string]string{} // constructor -> struct name
	stDir := filepath.Join(*repo, "symboltable")
	for _, f := range parsed[stDir] {
		for _, d := range f.Decls {
			fd, ok := d.(*ast.FuncDecl)
			if !ok || fd.Recv != nil || ctors[fd.Name.Name] == "" || fd.Body == nil {
				continue
			}
			ast.Inspect(fd.Body, func(n ast.Node) bool {
				r, ok := n.(*ast.ReturnStmt)
				if !ok || len(r.Results) != 1 {
					return true
				}
				if u, ok := unparen(r.Results[0]).(*ast.UnaryExpr); ok && u.Op == token.AND {
					if cl, ok := unparen(u.X).(*ast.CompositeLit); ok {
						built[fd.Name.Name] = typeBaseName(cl.Type)
					}
				}
				return true
			})
		}
	}
	for c := range ctors {
		if built[c] == "" {
			die("symboltable.%s: constructor (or the struct it returns) not found — the four tables were restructured", c)
		}
	}

	var sites []site
	for _, d := range dirs {
		info := &pkgInfo{consts: collectConsts(parsed[d])}
		for _, f := range parsed[d] {
			visit := func(fnName string, fd *ast.FuncDecl, root ast.Node) {
				idx := 0
				ast.Inspect(root, func(n ast.Node) bool {
					call, ok := n.(*ast.CallExpr)
					if !ok {
						return true
					}
					kind := ctors[calleeName(call.Fun)]
					if kind == "" {
						return true
					}
					c := &ctx{pkg: info, fd: fd}
					if fd != nil && fd.Recv != nil && len(fd.Recv.List) == 1 && d == stDir {
						if typeBaseName(fd.Recv.List[0].Type) == built[calleeName(call.Fun)] {
							c.internal = true
							if len(fd.Recv.List[0].Names) == 1 {
								c.recv = fd.Recv.List[0].Names[0].Name
							}
						}
					}
					s := site{file: names[f], fn: fnName, idx: idx, ctor: kind, internal: c.internal,
						cap: ".unknown", min: ".unknown", max: ".unknown"}
					if len(call.Args) == 4 && !call.Ellipsis.IsValid() {
						s.cap, s.min, s.max = c.options(call.Args[3])
					}
					sites = append(sites, s)
					idx++
					return true
				})
			}
			for _, decl := range f.Decls {
				switch x := decl.(type) {
				case *ast.FuncDecl:
					if x.Body == nil {
						continue
					}
					name := x.Name.Name
					if x.Recv != nil && len(x.Recv.List) == 1 {
						name = typeBaseName(x.Recv.List[0].Type) + "." + name
					}
					visit(name, x, x.Body)
				case *ast.GenDecl:
					if x.Tok != token.VAR {
						continue
					}
					for _, sp := range x.Specs {
						vs := sp.(*ast.ValueSpec)
						for i, v := range vs.Values {
							n := "var"
							if i < len(vs.Names) {
								n = "var " + vs.Names[i].Name
							} else if len(vs.Names) > 0 {
								n = "var " + vs.Names[0].Name
							}
							visit(n, nil, v)
						}
					}
				}
			}
		}
	}
	sort.SliceStable(sites, func(i, j int) bool {
		a, b := sites[i], sites[j]
		if a.file != b.file {
			return a.file < b.file
		}
		if a.fn != b.fn {
			return a.fn < b.fn
		}
		return a.idx < b.idx
	})

	var b strings.Builder
	b.WriteString("/-! GENERATED by /verif/bin/pre-C03 (extract/c03) from the non-test Go source of /repo — do not edit; rewritten on every check run.\n")
	b.WriteString("Every call of the four hash-table constructors with its statically evaluated HashOpts (see extract/c03/main.go). -/\n")
	b.WriteString("namespace AlgoVerif.Generated\n\n")
	b.WriteString("inductive C03Ctor where\n  | quadratic | double | linear | chain\n  deriving Repr, DecidableEq\n\n")
	b.WriteString("/-- `InitialCap`: absent, an integer literal, the parameter of the table's own `resize`, or not evaluable -/\n")
	b.WriteString("inductive C03Cap where\n  | dflt\n  | lit (n : Nat)\n  | resizeArg\n  | unknown\n  deriving Repr, DecidableEq\n\n")
	b.WriteString("/-- a load factor: absent, a literal as an exact rational, the receiver's own `minLF` / `maxLF`, or not evaluable -/\n")
	b.WriteString("inductive C03LF where\n  | dflt\n  | lit (num den : Nat)\n  | recvMin\n  | recvMax\n  | unknown\n  deriving Repr, DecidableEq\n\n")
	b.WriteString("structure C03CallSite where\n  file : String\n  /-- enclosing top-level function (`Type.method` for methods) -/\n  fn : String\n  /-- ordinal of the call among the constructor calls of that function -/\n  idx : Nat\n  ctor : C03Ctor\n  /-- the call is inside a method of the struct this constructor builds -/\n  internal : Bool\n  cap : C03Cap\n  minLF : C03LF\n  maxLF : C03LF\n  deriving Repr, DecidableEq\n\n")
	fmt.Fprintf(&b, "/-- %d call sites in %d non-test Go files -/\n", len(sites), nfiles)
	b.WriteString("def C03CallSites : List C03CallSite := [\n")
	for i, s := range sites {
		sep := ","
		if i == len(sites)-1 {
			sep = ""
		}
		fmt.Fprintf(&b, "  { file := %q, fn := %q, idx := %d, ctor := .%s, internal := %v, cap := %s, minLF := %s, maxLF := %s }%s\n",
			s.file, s.fn, s.idx, s.ctor, s.internal, s.cap, s.min, s.max, sep)
	}
	b.WriteString("]\n\nend AlgoVerif.Generated\n")

	if old, err := os.ReadFile(*out); err == nil && string(old) == b.String() {
		fmt.Println("Generated/C03CallSites.lean unchanged")
		return
	}
	if err := os.WriteFile(*out, []byte(b.String()), 0o644); err != nil {
		die("%v", err)
	}
	fmt.Println("Generated/C03CallSites.lean rewritten")
}
