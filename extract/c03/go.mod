module c03extract

go 1.23
