module c02extract

go 1.23
