// Command c02extract regenerates lean/AlgoVerif/Generated/C02.lean from /repo/symboltable:
//
//   - the list of small primes and the bound below which isPrime consults only that list
//     (hash_table.go, func isPrime), and
//   - the shift amounts of the hash mix `h ^= (h >> a) ^ (h >> b) ^ …` — which must be the same
//     statement in the four hash-table files (five occurrences).
//
// and, for the Model of the `hash` package (lean/AlgoVerif/Model/C02Hash.lean):
//
//   - which constructor of Go's hash/fnv `ensureHasher` (hash/hash.go) installs as the default hasher
//     (fnv.New64 = FNV-1, fnv.New64a = FNV-1a) and the 64-bit offset basis and prime of that package, read from
//     $GOROOT/src/hash/fnv/fnv.go of the toolchain that builds the harness (the standard library is trusted,
//     its constants are not retyped);
//   - the list of `HashFuncFor*` constructors of hash/hash.go and, for each, the number of bytes it writes per
//     element: the literal N of `make([]byte, N)` / `make([]byte, N*len(v))`, or — where the source says
//     `unsafe.Sizeof(v)` of a `var v T` — the size of T on a 64-bit platform (8 for int/uint/uintptr, 24 for the
//     slice header when T is itself the slice type), or 0 when the function writes the bytes of its argument(s).
//
// The Lean Model imports these definitions instead of retyping them, so a change of the source changes
// the Model (and `isPrime_correct`, on which the C02/C03 theorems of the open-addressing tables depend,
// stops checking if the list is no longer the list of primes below the bound).
// The file is written only when its content changes. go/parser only; no type checking, no network.
package main

import (
	"flag"
	"fmt"
	"go/ast"
	"go/parser"
	"go/token"
	"os"
	"path/filepath"
	"runtime"
	"sort"
	"strconv"
	"strings"
)

func die(format string, a ...any) {
	fmt.Fprintf(os.Stderr, "c02extract: "+format+"\n", a...)
	os.Exit(1)
}

func intLit(e ast.Expr) (int, bool) {
	if p, ok := e.(*ast.ParenExpr); ok {
		return intLit(p.X)
	}
	b, ok := e.(*ast.BasicLit)
	if !ok || b.Kind != token.INT {
		return 0, false
	}
	v, err := strconv.Atoi(b.Value)
	return v, err == nil
}

// flatten a left-nested chain of the binary operator op
func flatten(e ast.Expr, op token.Token, out *[]ast.Expr) {
	if p, ok := e.(*ast.ParenExpr); ok {
		flatten(p.X, op, out)
		return
	}
	if b, ok := e.(*ast.BinaryExpr); ok && b.Op == op {
		flatten(b.X, op, out)
		flatten(b.Y, op, out)
		return
	}
	*out = append(*out, e)
}

func smallPrimes(f *ast.File) (list []int, bound int) {
	bound = -1
	for _, d := range f.Decls {
		fd, ok := d.(*ast.FuncDecl)
		if !ok || fd.Name.Name != "isPrime" {
			continue
		}
		ast.Inspect(fd.Body, func(n ast.Node) bool {
			ifs, ok := n.(*ast.IfStmt)
			if !ok {
				return true
			}
			var terms []ast.Expr
			flatten(ifs.Cond, token.LOR, &terms)
			if len(terms) < 5 {
				return true
			}
			for _, t := range terms {
				b, ok := t.(*ast.BinaryExpr)
				if !ok || b.Op != token.EQL {
					die("isPrime: unexpected term in the small-prime disjunction")
				}
				v, ok := intLit(b.Y)
				if !ok {
					die("isPrime: small-prime disjunction compares with a non-literal")
				}
				list = append(list, v)
			}
			// `else if n <= BOUND { return false }`
			if els, ok := ifs.Else.(*ast.IfStmt); ok {
				if b, ok := els.Cond.(*ast.BinaryExpr); ok && b.Op == token.LEQ {
					if v, ok := intLit(b.Y); ok {
						bound = v
					}
				}
			}
			return false
		})
	}
	if len(list) == 0 || bound < 0 {
		die("isPrime: small-prime list or bound not found (the function was restructured)")
	}
	return
}

// mixShifts finds every `h ^= (h >> a) ^ (h >> b) ^ …` in the file.
func mixShifts(f *ast.File) (found [][]int) {
	ast.Inspect(f, func(n ast.Node) bool {
		as, ok := n.(*ast.AssignStmt)
		if !ok || as.Tok != token.XOR_ASSIGN || len(as.Lhs) != 1 || len(as.Rhs) != 1 {
			return true
		}
		var terms []ast.Expr
		flatten(as.Rhs[0], token.XOR, &terms)
		var shifts []int
		for _, t := range terms {
			if p, ok := t.(*ast.ParenExpr); ok {
				t = p.X
			}
			b, ok := t.(*ast.BinaryExpr)
			if !ok || b.Op != token.SHR {
				return true
			}
			v, ok := intLit(b.Y)
			if !ok {
				return true
			}
			shifts = append(shifts, v)
		}
		found = append(found, shifts)
		return true
	})
	return
}


// ---------------------------------------------------------------- hash/hash.go and hash/fnv

// defaultHasher returns the name of the fnv constructor called by ensureHasher.
func defaultHasher(f *ast.File) string {
	name := ""
	for _, d := range f.Decls {
		fd, ok := d.(*ast.FuncDecl)
		if !ok || fd.Name.Name != "ensureHasher" {
			continue
		}
		ast.Inspect(fd.Body, func(n ast.Node) bool {
			c, ok := n.(*ast.CallExpr)
			if !ok {
				return true
			}
			if sel, ok := c.Fun.(*ast.SelectorExpr); ok {
				if x, ok := sel.X.(*ast.Ident); ok && x.Name == "fnv" {
					if name != "" && name != sel.Sel.Name {
						die("ensureHasher calls two different fnv constructors")
					}
					name = sel.Sel.Name
				}
			}
			return true
		})
	}
	if name != "New64" && name != "New64a" {
		die("ensureHasher: the default hasher is %q, neither fnv.New64 nor fnv.New64a (the Model of package hash knows these two)", name)
	}
	return name
}

// fnvConsts reads offset64 and prime64 from the standard library of the toolchain in use.
func fnvConsts() (offset, prime string) {
	root := runtime.GOROOT()
	if root == "" {
		die("GOROOT unknown")
	}
	fset := token.NewFileSet()
	f, err := parser.ParseFile(fset, filepath.Join(root, "src", "hash", "fnv", "fnv.go"), nil, 0)
	if err != nil {
		die("%v", err)
	}
	for _, d := range f.Decls {
		gd, ok := d.(*ast.GenDecl)
		if !ok || gd.Tok != token.CONST {
			continue
		}
		for _, sp := range gd.Specs {
			vs := sp.(*ast.ValueSpec)
			for i, n := range vs.Names {
				if i >= len(vs.Values) {
					continue
				}
				b, ok := vs.Values[i].(*ast.BasicLit)
				if !ok || b.Kind != token.INT {
					continue
				}
				switch n.Name {
				case "offset64":
					offset = b.Value
				case "prime64":
					prime = b.Value
				}
			}
		}
	}
	if offset == "" || prime == "" {
		die("hash/fnv: offset64 / prime64 not found in %s", root)
	}
	return
}

type hashFn struct {
	name  string // e.g. HashFuncForInt16Slice
	width int    // bytes per element (0: the bytes of the argument itself)
}

// hashFuncs lists the HashFuncFor* constructors with the width of one encoded element.
func hashFuncs(f *ast.File) []hashFn {
	var out []hashFn
	for _, d := range f.Decls {
		fd, ok := d.(*ast.FuncDecl)
		if !ok || fd.Recv != nil || !strings.HasPrefix(fd.Name.Name, "HashFuncFor") {
			continue
		}
		// the constraint of the single type parameter: ~[]X (slice) or ~X
		sliceT := false
		if fd.Type.TypeParams != nil && len(fd.Type.TypeParams.List) == 1 {
			if u, ok := fd.Type.TypeParams.List[0].Type.(*ast.UnaryExpr); ok && u.Op == token.TILDE {
				_, sliceT = u.X.(*ast.ArrayType)
			}
		}
		width, found, usesSizeof := 0, false, false
		ast.Inspect(fd.Body, func(n ast.Node) bool {
			c, ok := n.(*ast.CallExpr)
			if !ok {
				return true
			}
			if sel, ok := c.Fun.(*ast.SelectorExpr); ok && sel.Sel.Name == "Sizeof" {
				usesSizeof = true
			}
			id, ok := c.Fun.(*ast.Ident)
			if !ok || id.Name != "make" || len(c.Args) != 2 || found {
				return true
			}
			arg := c.Args[1]
			if b, ok := arg.(*ast.BinaryExpr); ok && b.Op == token.MUL {
				arg = b.X // N*len(v) / size*len(v)
			}
			if v, ok := intLit(arg); ok {
				width, found = v, true
			} else if id, ok := arg.(*ast.Ident); ok && id.Name == "size" {
				width, found = -1, true
			} else if c2, ok := arg.(*ast.CallExpr); ok {
				if id, ok := c2.Fun.(*ast.Ident); ok && id.Name == "len" {
					width, found = 1, true // make([]byte, len(v))
				}
			}
			return true
		})
		if width == -1 {
			if !usesSizeof {
				die("%s: buffer of `size` bytes but no unsafe.Sizeof", fd.Name.Name)
			}
			// `var v T; size := int(unsafe.Sizeof(v))`: T is the type parameter itself
			if sliceT {
				width = 24 // slice header on a 64-bit platform
			} else {
				width = 8 // int, uint, uintptr on a 64-bit platform
			}
		}
		out = append(out, hashFn{fd.Name.Name, width})
	}
	sort.Slice(out, func(i, j int) bool { return out[i].name < out[j].name })
	if len(out) == 0 {
		die("hash/hash.go: no HashFuncFor* function found")
	}
	return out
}

func natList(xs []int) string {
	ss := make([]string, len(xs))
	for i, x := range xs {
		ss[i] = strconv.Itoa(x)
	}
	return "[" + strings.Join(ss, ", ") + "]"
}

func main() {
	repo := flag.String("repo", "/repo", "repository root")
	out := flag.String("out", "/verif/lean/AlgoVerif/Generated/C02.lean", "output file")
	flag.Parse()
	fset := token.NewFileSet()
	parse := func(name string) *ast.File {
		f, err := parser.ParseFile(fset, filepath.Join(*repo, "symboltable", name), nil, 0)
		if err != nil {
			die("%v", err)
		}
		return f
	}
	primes, bound := smallPrimes(parse("hash_table.go"))
	var shifts []int
	occurrences := 0
	for _, name := range []string{"chain_hash_table.go", "linear_hash_table.go", "quadratic_hash_table.go", "double_hash_table.go"} {
		for _, s := range mixShifts(parse(name)) {
			occurrences++
			if shifts == nil {
				shifts = s
			} else if natList(s) != natList(shifts) {
				die("%s mixes the hash with shifts %v, another table uses %v: the four tables are modelled with one mix", name, s, shifts)
			}
		}
	}
	if occurrences < 4 {
		die("found only %d hash-mix statements in the four hash-table files", occurrences)
	}
	var b strings.Builder
	b.WriteString("/-! GENERATED by /verif/bin/pre-C02 (extract/c02) from /repo/symboltable and /repo/hash — do not edit; rewritten on every check run. -/\n")
	b.WriteString("namespace AlgoVerif.Generated\n\n")
	b.WriteString("/-- the numbers `isPrime` accepts by direct comparison (hash_table.go) -/\n")
	fmt.Fprintf(&b, "def symboltable_isPrime_small : List Nat := %s\n\n", natList(primes))
	b.WriteString("/-- `isPrime` answers from that list alone up to this bound -/\n")
	fmt.Fprintf(&b, "def symboltable_isPrime_smallBound : Nat := %d\n\n", bound)
	fmt.Fprintf(&b, "/-- shift amounts of `h ^= (h >> a) ^ (h >> b) ^ …` (%d identical occurrences in the four table files) -/\n", occurrences)
	fmt.Fprintf(&b, "def symboltable_mixShifts : List Nat := %s\n\n", natList(shifts))
	hf, err := parser.ParseFile(fset, filepath.Join(*repo, "hash", "hash.go"), nil, 0)
	if err != nil {
		die("%v", err)
	}
	hasher := defaultHasher(hf)
	offset, prime := fnvConsts()
	fmt.Fprintf(&b, "/-- `ensureHasher` (hash/hash.go) installs `fnv.%s()` when no hasher is given: true = FNV-1a (xor, then multiply), false = FNV-1 (multiply, then xor) -/\n", hasher)
	fmt.Fprintf(&b, "def hash_defaultHasherIsFNV1a : Bool := %v\n\n", hasher == "New64a")
	b.WriteString("/-- `offset64` and `prime64` of Go's hash/fnv (read from $GOROOT/src/hash/fnv/fnv.go of the toolchain in use) -/\n")
	fmt.Fprintf(&b, "def hash_fnv_offset64 : Nat := %s\n", offset)
	fmt.Fprintf(&b, "def hash_fnv_prime64 : Nat := %s\n\n", prime)
	fns := hashFuncs(hf)
	b.WriteString("/-- the `HashFuncFor*` constructors of hash/hash.go with the number of bytes written per element (see extract/c02) -/\n")
	b.WriteString("def hash_funcs : List (String × Nat) := [")
	for i, f := range fns {
		if i > 0 {
			b.WriteString(", ")
		}
		fmt.Fprintf(&b, "(%q, %d)", f.name, f.width)
	}
	b.WriteString("]\n\n")
	b.WriteString("/-- the same list, names without the prefix `HashFuncFor` -/\n")
	b.WriteString("def hash_funcNames : List String := [")
	for i, f := range fns {
		if i > 0 {
			b.WriteString(", ")
		}
		fmt.Fprintf(&b, "%q", strings.TrimPrefix(f.name, "HashFuncFor"))
	}
	b.WriteString("]\n\n")
	for _, f := range fns {
		fmt.Fprintf(&b, "def hash_%s_width : Nat := %d\n", f.name, f.width)
	}
	b.WriteString("\n")
	b.WriteString("end AlgoVerif.Generated\n")
	if old, err := os.ReadFile(*out); err == nil && string(old) == b.String() {
		fmt.Println("Generated/C02.lean unchanged")
		return
	}
	if err := os.WriteFile(*out, []byte(b.String()), 0o644); err != nil {
		die("%v", err)
	}
	fmt.Println("Generated/C02.lean rewritten")
}
