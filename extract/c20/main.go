// Command c20 regenerates lean/AlgoVerif/Generated/C20.lean from /repo's current source:
//
//   - the table of ALL package-level variables of the library packages (type-checked, no build
//     tags: the library as it ships), each with a classification: immutable, or mutated by code
//     reachable from the exported API (assigned through; a state-changing method called on it, e.g.
//     (*rand.Rand).Shuffle or hash.Hash64.Reset; passed to something that writes through it; a
//     closure value whose literal mutates a variable it captured from its factory);
//   - for every exported API entry (exported functions, methods with exported names on any type,
//     exported package-level variables) the list of package-level variables that code reachable
//     from it may mutate.
//
// The analysis is a MAY-mutate approximation on the AST + go/types:
//
//	roots      package-level variables, function parameters/receivers, variables captured by a
//	           function literal; local aliases of pointer-like roots are tracked flow-insensitively
//	events     W  assignment / inc-dec whose left side is rooted at a root
//	           M  method call whose receiver is rooted at a root
//	           A  a pointer-like value rooted at a root passed as a call argument
//	           X  address taken / stored away (escape) of a non-function pointer-like global
//	summaries  "function f may write through parameter i", least fixpoint over W, M, A
//	reach      f -> g when f's body (incl. nested literals) mentions g (call OR function value);
//	           interface / type-parameter method calls go to every library method of that name;
//	           f -> G when f mentions package-level variable G; G -> whatever its initialiser mentions
//
// Trusted rule (named in meta/C20.json): a *math/rand.Rand built by rand.New(T{}) where T is a
// field-less library type whose methods only call top-level math/rand functions keeps no state of
// its own, and Rand's methods other than Seed and Read write nothing but their Source.
package main

import (
	"bytes"
	"encoding/json"
	"flag"
	"fmt"
	"go/ast"
	"go/token"
	"go/types"
	"os"
	"sort"
	"strings"

	"golang.org/x/tools/go/packages"
)

const modPath = "github.com/moorara/algo"

type evKind int

const (
	evW evKind = iota // write: direct (the variable itself) or through it
	evM               // method call on it
	evA               // passed as argument
	evX               // escapes
)

type event struct {
	kind   evKind
	root   *types.Var
	direct bool // W: the left side is the variable itself
	deref  bool // W: the path from the root crosses a pointer/slice/map indirection
	pos    token.Pos
	lit    *ast.FuncLit // innermost enclosing literal (nil: the function body itself)
	// M
	method  *types.Func
	dynamic bool // receiver is an interface or a type parameter
	mname   string
	// A
	callee    *types.Func // static callee (nil: dynamic or builtin)
	calleeStr string
	argIndex  int
	// W: named struct types whose fields the left side selects, and whether the root is a local
	// variable holding a freshly allocated object (composite literal / new) of this function
	touched []*types.Named
	fresh   bool
}

type fnode struct {
	key    string
	obj    *types.Func // nil for initialiser pseudo-nodes
	gvar   *types.Var  // initialiser pseudo-node of this global
	decl   *ast.FuncDecl
	pkg    *packages.Package
	params []*types.Var // receiver first (if any), then parameters
	events []event
	refsF  map[*types.Func]bool
	refsG  map[*types.Var]bool
	dyn    map[string]bool // names of dynamically dispatched methods called
	lits   []*ast.FuncLit
	// factories called outside any literal (evaluated when the node itself runs)
	topFactories []*types.Func
	topLits      []*ast.FuncLit // literals not nested in another literal
}

type analysis struct {
	fset          *token.FileSet
	pkgs          []*packages.Package
	funcs         map[*types.Func]*fnode
	inits         map[*types.Var]*fnode
	globals       []*types.Var
	gpkg          map[*types.Var]*packages.Package
	methodsByName map[string][]*types.Func
	summary       map[*types.Func][]bool
	closureState  map[*types.Var]string
	statelessRand map[*types.Var]string
	emptySlice    map[*types.Var]bool     // initialised with an empty slice literal (capacity 0)
	thawed        map[*types.Named]string // struct types some code writes into after construction
	notes         []string
}

func inModule(p *types.Package) bool {
	return p != nil && (p.Path() == modPath || strings.HasPrefix(p.Path(), modPath+"/"))
}

func rel(p *types.Package) string {
	if p.Path() == modPath {
		return "."
	}
	return strings.TrimPrefix(p.Path(), modPath+"/")
}

func isGlobal(v *types.Var) bool {
	return v != nil && v.Pkg() != nil && !v.IsField() && v.Parent() == v.Pkg().Scope()
}

func pointerLike(t types.Type, depth int) bool {
	if depth > 6 {
		return true
	}
	switch u := t.Underlying().(type) {
	case *types.Pointer, *types.Slice, *types.Map, *types.Chan, *types.Interface, *types.Signature:
		return true
	case *types.Struct:
		for i := 0; i < u.NumFields(); i++ {
			if pointerLike(u.Field(i).Type(), depth+1) {
				return true
			}
		}
	case *types.Array:
		return pointerLike(u.Elem(), depth+1)
	}
	if _, ok := t.(*types.TypeParam); ok {
		return true
	}
	return false
}

func isFuncType(t types.Type) bool {
	_, ok := t.Underlying().(*types.Signature)
	return ok
}

// ------------------------------------------------------------------------------------------------

type walker struct {
	a     *analysis
	info  *types.Info
	n     *fnode
	alias map[*types.Var]map[*types.Var]bool
	fresh map[*types.Var]bool
	stack []*ast.FuncLit
}

// touchedStructs lists the named struct types whose fields an lvalue path selects or dereferences.
func (w *walker) touchedStructs(e ast.Expr) []*types.Named {
	var out []*types.Named
	add := func(t types.Type) {
		if p, ok := t.Underlying().(*types.Pointer); ok {
			t = p.Elem()
		}
		if p, ok := t.(*types.Pointer); ok {
			t = p.Elem()
		}
		if n, ok := t.(*types.Named); ok {
			if _, isStruct := n.Underlying().(*types.Struct); isStruct {
				out = append(out, n.Origin())
			}
		}
	}
	for {
		switch x := e.(type) {
		case *ast.ParenExpr:
			e = x.X
		case *ast.StarExpr:
			if tv, ok := w.info.Types[x.X]; ok && tv.Type != nil {
				add(tv.Type)
			}
			e = x.X
		case *ast.IndexExpr:
			e = x.X
		case *ast.SliceExpr:
			e = x.X
		case *ast.SelectorExpr:
			if sel, ok := w.info.Selections[x]; ok && sel.Kind() == types.FieldVal {
				add(sel.Recv())
				e = x.X
				continue
			}
			return out
		default:
			return out
		}
	}
}

func isFreshExpr(e ast.Expr) bool {
	switch x := ast.Unparen(e).(type) {
	case *ast.CompositeLit:
		return true
	case *ast.UnaryExpr:
		if x.Op == token.AND {
			_, ok := ast.Unparen(x.X).(*ast.CompositeLit)
			return ok
		}
	case *ast.CallExpr:
		if id, ok := x.Fun.(*ast.Ident); ok && id.Name == "new" {
			return true
		}
	}
	return false
}

// collectFresh: local variables DEFINED (:= / var) from a composite literal or new(T) and never
// re-assigned from anything else.
func (w *walker) collectFresh(body ast.Node) {
	w.fresh = map[*types.Var]bool{}
	spoiled := map[*types.Var]bool{}
	note := func(l ast.Expr, r ast.Expr, define bool) {
		id, ok := l.(*ast.Ident)
		if !ok {
			return
		}
		v, _ := w.info.Defs[id].(*types.Var)
		if v == nil {
			v, _ = w.info.Uses[id].(*types.Var)
		}
		if v == nil || isGlobal(v) {
			return
		}
		if r != nil && isFreshExpr(r) {
			w.fresh[v] = true
		} else {
			spoiled[v] = true
		}
	}
	ast.Inspect(body, func(n ast.Node) bool {
		switch s := n.(type) {
		case *ast.AssignStmt:
			for i, l := range s.Lhs {
				var r ast.Expr
				if len(s.Lhs) == len(s.Rhs) {
					r = s.Rhs[i]
				}
				note(l, r, s.Tok == token.DEFINE)
			}
		case *ast.ValueSpec:
			for i, l := range s.Names {
				var r ast.Expr
				if len(s.Names) == len(s.Values) {
					r = s.Values[i]
				} else if len(s.Values) == 0 {
					continue // zero value: a fresh value, but pointers are nil; leave unmarked
				}
				note(l, r, true)
			}
		case *ast.RangeStmt:
			if s.Key != nil {
				note(s.Key, nil, false)
			}
			if s.Value != nil {
				note(s.Value, nil, false)
			}
		}
		return true
	})
	for v := range spoiled {
		delete(w.fresh, v)
	}
}

// rootOf returns the variable an lvalue/receiver/argument expression is rooted at, and whether the
// path crosses an indirection.
func (w *walker) rootOf(e ast.Expr) (*types.Var, bool) {
	deref := false
	for {
		switch x := e.(type) {
		case *ast.ParenExpr:
			e = x.X
		case *ast.StarExpr:
			deref = true
			e = x.X
		case *ast.IndexExpr:
			if tv, ok := w.info.Types[x.X]; ok && tv.Type != nil {
				switch tv.Type.Underlying().(type) {
				case *types.Slice, *types.Map, *types.Pointer:
					deref = true
				}
			}
			e = x.X
		case *ast.SliceExpr:
			e = x.X
		case *ast.TypeAssertExpr:
			e = x.X
		case *ast.SelectorExpr:
			if sel, ok := w.info.Selections[x]; ok {
				if sel.Kind() == types.FieldVal {
					if sel.Indirect() {
						deref = true
					} else if tv, ok := w.info.Types[x.X]; ok && tv.Type != nil {
						if _, isPtr := tv.Type.Underlying().(*types.Pointer); isPtr {
							deref = true
						}
					}
					e = x.X
					continue
				}
				return nil, false
			}
			// package-qualified identifier
			if v, ok := w.info.Uses[x.Sel].(*types.Var); ok {
				return v, deref
			}
			return nil, false
		case *ast.Ident:
			if v, ok := w.info.Uses[x].(*types.Var); ok {
				return v, deref
			}
			if v, ok := w.info.Defs[x].(*types.Var); ok {
				return v, deref
			}
			return nil, false
		case *ast.UnaryExpr:
			if x.Op == token.AND {
				e = x.X
				continue
			}
			return nil, false
		default:
			return nil, false
		}
	}
}

// resolve maps a variable to the roots it may stand for (itself plus what it aliases).
func (w *walker) resolve(v *types.Var) []*types.Var {
	out := []*types.Var{v}
	for r := range w.alias[v] {
		out = append(out, r)
	}
	return out
}

func (w *walker) curLit() *ast.FuncLit {
	if len(w.stack) == 0 {
		return nil
	}
	return w.stack[len(w.stack)-1]
}

func (w *walker) addAlias(lhs ast.Expr, rhs ast.Expr) bool {
	id, ok := lhs.(*ast.Ident)
	if !ok {
		return false
	}
	lv, _ := w.info.Defs[id].(*types.Var)
	if lv == nil {
		lv, _ = w.info.Uses[id].(*types.Var)
	}
	if lv == nil || isGlobal(lv) || !pointerLike(lv.Type(), 0) {
		return false
	}
	rv, _ := w.rootOf(rhs)
	if rv == nil || rv == lv {
		return false
	}
	changed := false
	for _, r := range w.resolve(rv) {
		if r == lv {
			continue
		}
		if w.alias[lv] == nil {
			w.alias[lv] = map[*types.Var]bool{}
		}
		if !w.alias[lv][r] {
			w.alias[lv][r] = true
			changed = true
		}
	}
	return changed
}

// collectAliases: flow-insensitive, to a fixpoint.
func (w *walker) collectAliases(body ast.Node) {
	for changed, rounds := true, 0; changed && rounds < 8; rounds++ {
		changed = false
		ast.Inspect(body, func(n ast.Node) bool {
			switch s := n.(type) {
			case *ast.AssignStmt:
				if len(s.Lhs) == len(s.Rhs) {
					for i := range s.Lhs {
						if w.addAlias(s.Lhs[i], s.Rhs[i]) {
							changed = true
						}
					}
				}
			case *ast.ValueSpec:
				if len(s.Names) == len(s.Values) {
					for i := range s.Names {
						if w.addAlias(s.Names[i], s.Values[i]) {
							changed = true
						}
					}
				}
			case *ast.RangeStmt:
				if s.Value != nil && w.addAlias(s.Value, s.X) {
					changed = true
				}
			}
			return true
		})
	}
}

func (w *walker) emit(ev event, v *types.Var) {
	for _, r := range w.resolve(v) {
		e := ev
		e.root = r
		e.lit = w.curLit()
		w.n.events = append(w.n.events, e)
	}
}

func (w *walker) lhs(e ast.Expr, pos token.Pos) {
	if id, ok := e.(*ast.Ident); ok && id.Name == "_" {
		return
	}
	v, deref := w.rootOf(e)
	if v == nil {
		return
	}
	_, direct := ast.Unparen(e).(*ast.Ident)
	if sel, ok := ast.Unparen(e).(*ast.SelectorExpr); ok {
		if _, isSel := w.info.Selections[sel]; !isSel {
			direct = true // pkg.G = …
		}
	}
	ev := event{kind: evW, direct: direct, deref: deref, pos: pos, touched: w.touchedStructs(e)}
	ev.fresh = w.fresh[v] && len(w.alias[v]) == 0
	if direct {
		// re-binding the variable itself: not a write through what it aliases
		ev.root = v
		ev.lit = w.curLit()
		w.n.events = append(w.n.events, ev)
		return
	}
	w.emit(ev, v)
}

func staticCallee(info *types.Info, fun ast.Expr) *types.Func {
	switch f := ast.Unparen(fun).(type) {
	case *ast.Ident:
		fn, _ := info.Uses[f].(*types.Func)
		return fn
	case *ast.SelectorExpr:
		if sel, ok := info.Selections[f]; ok {
			if sel.Kind() == types.MethodVal {
				fn, _ := sel.Obj().(*types.Func)
				return fn
			}
			return nil
		}
		fn, _ := info.Uses[f.Sel].(*types.Func)
		return fn
	case *ast.IndexExpr:
		return staticCallee(info, f.X)
	case *ast.IndexListExpr:
		return staticCallee(info, f.X)
	}
	return nil
}

func (w *walker) walk(body ast.Node) {
	var visit func(n ast.Node) bool
	visit = func(n ast.Node) bool {
		switch x := n.(type) {
		case *ast.FuncLit:
			w.n.lits = append(w.n.lits, x)
			if len(w.stack) == 0 {
				w.n.topLits = append(w.n.topLits, x)
			}
			w.stack = append(w.stack, x)
			ast.Inspect(x.Body, visit)
			w.stack = w.stack[:len(w.stack)-1]
			return false
		case *ast.AssignStmt:
			for _, l := range x.Lhs {
				if x.Tok == token.DEFINE {
					if id, ok := l.(*ast.Ident); ok && w.info.Defs[id] != nil {
						continue // a new variable
					}
				}
				w.lhs(l, x.Pos())
			}
			// a non-function pointer-like global stored somewhere other than a tracked local alias
			for i, r := range x.Rhs {
				if i < len(x.Lhs) {
					if _, isIdent := x.Lhs[i].(*ast.Ident); isIdent {
						continue
					}
				}
				w.escape(r)
			}
		case *ast.IncDecStmt:
			w.lhs(x.X, x.Pos())
		case *ast.RangeStmt:
			if x.Tok == token.ASSIGN {
				if x.Key != nil {
					w.lhs(x.Key, x.Pos())
				}
				if x.Value != nil {
					w.lhs(x.Value, x.Pos())
				}
			}
		case *ast.UnaryExpr:
			if x.Op == token.AND {
				if v, _ := w.rootOf(x.X); v != nil {
					for _, r := range w.resolve(v) {
						if isGlobal(r) && !isFuncType(r.Type()) {
							w.emit(event{kind: evX, pos: x.Pos()}, r)
						}
					}
				}
			}
		case *ast.ReturnStmt:
			for _, r := range x.Results {
				w.escape(r)
			}
		case *ast.CompositeLit:
			for _, el := range x.Elts {
				if kv, ok := el.(*ast.KeyValueExpr); ok {
					w.escape(kv.Value)
				} else {
					w.escape(el)
				}
			}
		case *ast.SendStmt:
			w.escape(x.Value)
		case *ast.CallExpr:
			w.call(x)
		case *ast.Ident:
			w.ref(x)
		}
		return true
	}
	ast.Inspect(body, visit)
}

// escape: a non-function pointer-like GLOBAL (or an alias of one) leaves the function's view
// (returned, stored in a composite, sent): later writes through it cannot be seen syntactically.
func (w *walker) escape(e ast.Expr) {
	switch ast.Unparen(e).(type) {
	case *ast.Ident, *ast.SelectorExpr, *ast.SliceExpr, *ast.UnaryExpr:
	default:
		return
	}
	tv, ok := w.info.Types[e]
	if !ok || tv.Type == nil || !pointerLike(tv.Type, 0) || isFuncType(tv.Type) {
		return
	}
	v, _ := w.rootOf(e)
	if v == nil {
		return
	}
	for _, r := range w.resolve(v) {
		if isGlobal(r) && inModule(r.Pkg()) {
			ev := event{kind: evX, pos: e.Pos(), root: r, lit: w.curLit()}
			w.n.events = append(w.n.events, ev)
		}
	}
}

func (w *walker) ref(id *ast.Ident) {
	switch o := w.info.Uses[id].(type) {
	case *types.Func:
		if inModule(o.Pkg()) {
			w.n.refsF[o.Origin()] = true
		}
	case *types.Var:
		if isGlobal(o) && inModule(o.Pkg()) {
			w.n.refsG[o] = true
		}
	}
}

func (w *walker) call(c *ast.CallExpr) {
	// conversions are not calls
	if tv, ok := w.info.Types[c.Fun]; ok && tv.IsType() {
		return
	}
	callee := staticCallee(w.info, c.Fun)
	calleeStr := exprString(c.Fun)
	// method call: receiver event
	if sel, ok := ast.Unparen(c.Fun).(*ast.SelectorExpr); ok {
		if s, ok := w.info.Selections[sel]; ok && s.Kind() == types.MethodVal {
			recvT := s.Recv()
			_, isIface := recvT.Underlying().(*types.Interface)
			_, isTP := recvT.(*types.TypeParam)
			if p, ok := recvT.(*types.Pointer); ok {
				if _, tp := p.Elem().(*types.TypeParam); tp {
					isTP = true
				}
			}
			dynamic := isIface || isTP
			m, _ := s.Obj().(*types.Func)
			if dynamic {
				w.n.dyn[sel.Sel.Name] = true
			}
			if v, _ := w.rootOf(sel.X); v != nil {
				w.emit(event{kind: evM, pos: c.Pos(), method: m, dynamic: dynamic, mname: sel.Sel.Name}, v)
			}
		}
	}
	// factories evaluated by this node itself (not inside a literal)
	if len(w.stack) == 0 && callee != nil && inModule(callee.Pkg()) {
		if sig, ok := callee.Type().(*types.Signature); ok && sig.Results().Len() > 0 {
			for i := 0; i < sig.Results().Len(); i++ {
				if pointerLike(sig.Results().At(i).Type(), 0) {
					w.n.topFactories = append(w.n.topFactories, callee.Origin())
					break
				}
			}
		}
	}
	// arguments
	for i, arg := range c.Args {
		tv, ok := w.info.Types[arg]
		if !ok || tv.Type == nil || !pointerLike(tv.Type, 0) {
			continue
		}
		v, _ := w.rootOf(arg)
		if v == nil {
			continue
		}
		w.emit(event{kind: evA, pos: arg.Pos(), callee: callee, calleeStr: calleeStr, argIndex: i}, v)
	}
}

func exprString(e ast.Expr) string {
	switch x := ast.Unparen(e).(type) {
	case *ast.Ident:
		return x.Name
	case *ast.SelectorExpr:
		return exprString(x.X) + "." + x.Sel.Name
	case *ast.IndexExpr:
		return exprString(x.X)
	case *ast.IndexListExpr:
		return exprString(x.X)
	case *ast.CallExpr:
		return exprString(x.Fun) + "(…)"
	case *ast.FuncLit:
		return "func-literal"
	}
	return "?"
}

// ------------------------------------------------------------------------------------------------

func funcKey(fn *types.Func) string {
	sig := fn.Type().(*types.Signature)
	if r := sig.Recv(); r != nil {
		t := r.Type()
		if p, ok := t.(*types.Pointer); ok {
			t = p.Elem()
		}
		name := "?"
		switch n := t.(type) {
		case *types.Named:
			name = n.Obj().Name()
		case *types.Alias:
			name = n.Obj().Name()
		}
		return rel(fn.Pkg()) + "." + name + "." + fn.Name()
	}
	return rel(fn.Pkg()) + "." + fn.Name()
}

func globalKey(v *types.Var) string { return rel(v.Pkg()) + "." + v.Name() }

func (a *analysis) load(repo string) error {
	cfg := &packages.Config{
		Mode: packages.NeedName | packages.NeedFiles | packages.NeedSyntax | packages.NeedTypes |
			packages.NeedTypesInfo | packages.NeedImports | packages.NeedDeps | packages.NeedCompiledGoFiles,
		Dir:   repo,
		Tests: false,
		Env:   append(os.Environ(), "GOFLAGS=-mod=mod", "GOPROXY=off", "GOSUMDB=off", "GOTOOLCHAIN=local", "CGO_ENABLED=0"),
	}
	pkgs, err := packages.Load(cfg, "./...")
	if err != nil {
		return err
	}
	for _, p := range pkgs {
		for _, e := range p.Errors {
			return fmt.Errorf("package %s: %v", p.PkgPath, e)
		}
	}
	sort.Slice(pkgs, func(i, j int) bool { return pkgs[i].PkgPath < pkgs[j].PkgPath })
	a.pkgs = pkgs
	if len(pkgs) > 0 {
		a.fset = pkgs[0].Fset
	}
	return nil
}

func (a *analysis) collect() {
	a.funcs = map[*types.Func]*fnode{}
	a.inits = map[*types.Var]*fnode{}
	a.gpkg = map[*types.Var]*packages.Package{}
	a.emptySlice = map[*types.Var]bool{}
	a.methodsByName = map[string][]*types.Func{}
	for _, p := range a.pkgs {
		for _, f := range p.Syntax {
			for _, d := range f.Decls {
				switch d := d.(type) {
				case *ast.FuncDecl:
					fn, _ := p.TypesInfo.Defs[d.Name].(*types.Func)
					if fn == nil || d.Body == nil {
						continue
					}
					n := &fnode{key: funcKey(fn), obj: fn, decl: d, pkg: p, refsF: map[*types.Func]bool{}, refsG: map[*types.Var]bool{}, dyn: map[string]bool{}}
					sig := fn.Type().(*types.Signature)
					if r := sig.Recv(); r != nil {
						n.params = append(n.params, r)
						a.methodsByName[fn.Name()] = append(a.methodsByName[fn.Name()], fn)
					}
					for i := 0; i < sig.Params().Len(); i++ {
						n.params = append(n.params, sig.Params().At(i))
					}
					a.funcs[fn] = n
					w := &walker{a: a, info: p.TypesInfo, n: n, alias: map[*types.Var]map[*types.Var]bool{}}
					w.collectAliases(d.Body)
					w.collectFresh(d.Body)
					w.walk(d.Body)
				case *ast.GenDecl:
					if d.Tok != token.VAR {
						continue
					}
					for _, s := range d.Specs {
						vs := s.(*ast.ValueSpec)
						for i, name := range vs.Names {
							v, _ := p.TypesInfo.Defs[name].(*types.Var)
							if v == nil || name.Name == "_" {
								continue
							}
							a.globals = append(a.globals, v)
							a.gpkg[v] = p
							n := &fnode{key: "init:" + globalKey(v), gvar: v, pkg: p, refsF: map[*types.Func]bool{}, refsG: map[*types.Var]bool{}, dyn: map[string]bool{}}
							a.inits[v] = n
							var init ast.Expr
							if len(vs.Values) == len(vs.Names) {
								init = vs.Values[i]
							} else if len(vs.Values) == 1 {
								init = vs.Values[0]
							}
							if init != nil {
								w := &walker{a: a, info: p.TypesInfo, n: n, alias: map[*types.Var]map[*types.Var]bool{}, fresh: map[*types.Var]bool{}}
								w.walk(init)
								if cl, ok := ast.Unparen(init).(*ast.CompositeLit); ok && len(cl.Elts) == 0 {
									if _, isSlice := v.Type().Underlying().(*types.Slice); isSlice {
										a.emptySlice[v] = true
									}
								}
							}
						}
					}
				}
			}
		}
	}
	sort.Slice(a.globals, func(i, j int) bool { return globalKey(a.globals[i]) < globalKey(a.globals[j]) })
}

// pure external functions/methods: do not write through their arguments / receiver.
var pureExternal = map[string]bool{
	"len": true, "cap": true, "min": true, "max": true, "panic": true, "print": true, "println": true,
	"fmt.Sprintf": true, "fmt.Sprint": true, "fmt.Sprintln": true, "fmt.Errorf": true, "errors.New": true,
	"strings.Join": true, "strings.Contains": true, "strings.HasPrefix": true, "strings.HasSuffix": true,
	"strings.Repeat": true, "strings.Split": true, "strings.TrimSpace": true, "strings.ToLower": true, "strings.ToUpper": true,
	"strconv.Itoa": true, "strconv.Quote": true, "reflect.DeepEqual": true, "reflect.TypeOf": true, "reflect.ValueOf": true,
	"utf8.RuneCountInString": true, "utf8.RuneLen": true, "utf8.DecodeRune": true, "utf8.DecodeRuneInString": true,
	"errors.Is": true, "errors.As": false, "bytes.Equal": true, "slices.Contains": true, "slices.Equal": true, "slices.Index": true,
}

var pureExternalMethods = map[string]bool{
	"String": true, "Error": true, "GoString": true, "Len": true, "Cap": true, "Size": true, "Sum64": true, "Sum32": true,
	"BlockSize": true, "Bytes": true, "Unwrap": true, "Is": true,
}

var randSafeMethods = map[string]bool{"Shuffle": true, "Perm": true, "Int": true, "Intn": true, "Int31": true, "Int31n": true,
	"Int63": true, "Int63n": true, "Uint32": true, "Uint64": true, "Float32": true, "Float64": true, "ExpFloat64": true, "NormFloat64": true}

// paramIndex maps a call argument index to the callee's parameter slot in fnode.params.
func (a *analysis) paramMutated(callee *types.Func, argIndex int, viaRecv bool) bool {
	callee = callee.Origin()
	n := a.funcs[callee]
	if n == nil {
		return true // no body known: assume the worst
	}
	sum := a.summary[callee]
	sig := callee.Type().(*types.Signature)
	off := 0
	if sig.Recv() != nil {
		off = 1
	}
	if viaRecv {
		if off == 0 {
			return false
		}
		return sum[0]
	}
	i := argIndex
	if i >= sig.Params().Len() {
		i = sig.Params().Len() - 1 // variadic
	}
	if i < 0 {
		return false
	}
	return sum[off+i]
}

// mutates decides whether an event may write through its root.  forParam: the root is a parameter
// (rebinding it and writing to a by-value copy do not reach the caller).
func (a *analysis) mutates(ev event, forParam bool) bool {
	switch ev.kind {
	case evW:
		if forParam {
			return !ev.direct && ev.deref
		}
		return true
	case evX:
		if forParam {
			return false
		}
		// handing out a shared object is harmless when nothing can be written through it:
		// a zero-capacity slice, or a pointer to a struct type that no code writes into once built
		if a.emptySlice[ev.root] {
			return false
		}
		if p, ok := ev.root.Type().Underlying().(*types.Pointer); ok {
			if n, ok := p.Elem().(*types.Named); ok && inModule(n.Obj().Pkg()) {
				if _, isStruct := n.Underlying().(*types.Struct); isStruct && a.thawed[n.Origin()] == "" {
					return false
				}
			}
		}
		return true
	case evM:
		if isGlobal(ev.root) && a.statelessRand[ev.root] != "" && randSafeMethods[ev.mname] {
			return false
		}
		if ev.dynamic {
			cands := a.methodsByName[ev.mname]
			external := ev.method == nil || !inModule(ev.method.Pkg())
			if external && !pureExternalMethods[ev.mname] {
				return true
			}
			for _, m := range cands {
				if a.paramMutated(m, 0, true) {
					return true
				}
			}
			return false
		}
		if ev.method == nil {
			return true
		}
		if inModule(ev.method.Pkg()) {
			return a.paramMutated(ev.method, 0, true)
		}
		// external concrete method: a pointer receiver may write
		sig := ev.method.Type().(*types.Signature)
		if _, ptr := sig.Recv().Type().(*types.Pointer); ptr {
			return !pureExternalMethods[ev.mname]
		}
		return false
	case evA:
		if ev.callee == nil {
			switch ev.calleeStr {
			case "len", "cap", "min", "max", "panic", "print", "println", "new", "make", "complex", "real", "imag":
				return false
			case "append", "copy":
				return ev.argIndex == 0
			case "delete", "clear", "close":
				return true
			}
			// a call through a function VALUE (comparator, hash function, predicate, visitor — the
			// library's function parameters): assumed not to write through its arguments (assumption
			// recorded in meta/C20.json; the Models make the same assumption for every property)
			return false
		}
		if inModule(ev.callee.Pkg()) {
			sig := ev.callee.Type().(*types.Signature)
			if sig.Recv() != nil {
				if _, isIface := sig.Recv().Type().Underlying().(*types.Interface); isIface {
					for _, m := range a.methodsByName[ev.callee.Name()] {
						if a.paramMutated(m, ev.argIndex, false) {
							return true
						}
					}
					return false
				}
			}
			return a.paramMutated(ev.callee, ev.argIndex, false)
		}
		name := ev.callee.Name()
		if ev.callee.Pkg() != nil {
			name = ev.callee.Pkg().Name() + "." + name
		}
		if pureExternal[name] {
			return false
		}
		if strings.HasPrefix(name, "fmt.Fprint") {
			return ev.argIndex == 0
		}
		return !isFuncType(ev.root.Type())
	}
	return true
}

// thaw: a struct type is "thawed" when some W event writes into one of its fields through a root
// that is not a freshly built local object of the writing function.
func (a *analysis) thaw() {
	a.thawed = map[*types.Named]string{}
	for _, n := range a.funcs {
		for _, ev := range n.events {
			if ev.kind != evW || ev.fresh {
				continue
			}
			for _, t := range ev.touched {
				if a.thawed[t] == "" {
					a.thawed[t] = n.key + " (" + shortPos(a.fset.Position(ev.pos)) + ")"
				}
			}
		}
	}
}

func (a *analysis) summaries() {
	a.summary = map[*types.Func][]bool{}
	for fn, n := range a.funcs {
		a.summary[fn] = make([]bool, len(n.params))
	}
	for changed := true; changed; {
		changed = false
		for fn, n := range a.funcs {
			for i, p := range n.params {
				if a.summary[fn][i] || !pointerLike(p.Type(), 0) {
					continue
				}
				for _, ev := range n.events {
					if ev.root == p && a.mutates(ev, true) {
						a.summary[fn][i] = true
						changed = true
						break
					}
				}
			}
		}
	}
}

func within(pos token.Pos, n ast.Node) bool { return n != nil && pos >= n.Pos() && pos < n.End() }

// closureMutations: for the literals created when `n` itself runs (outside literals: returned or
// stored closures), which variables captured from n's own frame may they mutate?
func (a *analysis) capturedMutations(n *fnode, seen map[*fnode]bool) []string {
	if n == nil || seen[n] {
		return nil
	}
	seen[n] = true
	var out []string
	var scope ast.Node
	if n.decl != nil {
		scope = n.decl
	}
	for _, ev := range n.events {
		if ev.lit == nil || isGlobal(ev.root) {
			continue
		}
		// the root must be declared in n's frame but OUTSIDE the literal the event sits in
		if scope != nil && !within(ev.root.Pos(), scope) {
			continue
		}
		captured := true
		for _, l := range n.lits {
			if within(ev.pos, l) && within(ev.root.Pos(), l) && (l == ev.lit || within(ev.lit.Pos(), l)) {
				// declared inside a literal that also contains the event: captured only if that literal
				// is an OUTER one and the event sits in a nested literal created per outer call — still
				// per-call state of the outer literal, not shared between calls of it.
				captured = false
			}
		}
		if !captured {
			continue
		}
		if a.mutates(ev, false) {
			out = append(out, fmt.Sprintf("%s captures %s (%s)", n.key, ev.root.Name(), shortPos(a.fset.Position(ev.pos))))
		}
	}
	for _, f := range n.topFactories {
		out = append(out, a.capturedMutations(a.funcs[f], seen)...)
	}
	return out
}

func (a *analysis) classifyClosures() {
	a.closureState = map[*types.Var]string{}
	for _, g := range a.globals {
		n := a.inits[g]
		var why []string
		for _, f := range n.topFactories {
			why = append(why, a.capturedMutations(a.funcs[f], map[*fnode]bool{})...)
		}
		if len(why) > 0 {
			sort.Strings(why)
			a.closureState[g] = why[0]
		}
	}
}

// statelessRand: var g = rand.New(T{}) with T a field-less library struct whose methods only call
// top-level math/rand functions.
func (a *analysis) classifyRand() {
	a.statelessRand = map[*types.Var]string{}
	for _, p := range a.pkgs {
		for _, f := range p.Syntax {
			for _, d := range f.Decls {
				gd, ok := d.(*ast.GenDecl)
				if !ok || gd.Tok != token.VAR {
					continue
				}
				for _, s := range gd.Specs {
					vs := s.(*ast.ValueSpec)
					if len(vs.Names) != 1 || len(vs.Values) != 1 {
						continue
					}
					g, _ := p.TypesInfo.Defs[vs.Names[0]].(*types.Var)
					call, ok := vs.Values[0].(*ast.CallExpr)
					if g == nil || !ok || len(call.Args) != 1 {
						continue
					}
					callee := staticCallee(p.TypesInfo, call.Fun)
					if callee == nil || callee.Pkg() == nil || callee.Pkg().Path() != "math/rand" || callee.Name() != "New" {
						continue
					}
					cl, ok := call.Args[0].(*ast.CompositeLit)
					if !ok || len(cl.Elts) != 0 {
						continue
					}
					tv := p.TypesInfo.Types[cl]
					named, ok := tv.Type.(*types.Named)
					if !ok || !inModule(named.Obj().Pkg()) {
						continue
					}
					st, ok := named.Underlying().(*types.Struct)
					if !ok || st.NumFields() != 0 {
						continue
					}
					okAll := true
					for i := 0; i < named.NumMethods(); i++ {
						mn := a.funcs[named.Method(i)]
						if mn == nil {
							okAll = false
							break
						}
						if len(mn.events) != 0 || len(mn.refsG) != 0 || len(mn.refsF) != 0 || len(mn.dyn) != 0 {
							okAll = false
						}
						ast.Inspect(mn.decl.Body, func(x ast.Node) bool {
							if c, ok := x.(*ast.CallExpr); ok {
								fn := staticCallee(p.TypesInfo, c.Fun)
								if fn == nil || fn.Pkg() == nil || fn.Pkg().Path() != "math/rand" || fn.Type().(*types.Signature).Recv() != nil {
									okAll = false
								}
							}
							return true
						})
					}
					if okAll {
						a.statelessRand[g] = named.Obj().Name()
					}
				}
			}
		}
	}
}

// ------------------------------------------------------------------------------------------------

type gfact struct {
	Name    string   `json:"name"`
	Type    string   `json:"type"`
	Class   string   `json:"class"`
	Mutated bool     `json:"mutated"`
	Sites   []string `json:"sites"`
	By      []string `json:"by"`
}

type apifact struct {
	API     string   `json:"api"`
	Mutated []string `json:"mutated"`
}

func (a *analysis) run() ([]gfact, []apifact) {
	a.collect()
	a.classifyRand()
	a.thaw()
	a.summaries()
	a.classifyClosures()

	// direct mutation facts per node
	type nodeID interface{}
	direct := map[*fnode]map[*types.Var][]string{}
	addDirect := func(n *fnode, g *types.Var, why string) {
		if direct[n] == nil {
			direct[n] = map[*types.Var][]string{}
		}
		direct[n][g] = append(direct[n][g], why)
	}
	all := []*fnode{}
	for _, n := range a.funcs {
		all = append(all, n)
	}
	for _, n := range a.inits {
		all = append(all, n)
	}
	sort.Slice(all, func(i, j int) bool { return all[i].key < all[j].key })
	kindName := map[evKind]string{evW: "assigned", evM: "method", evA: "argument", evX: "escapes"}
	for _, n := range all {
		isInit := n.obj != nil && n.obj.Name() == "init" && n.obj.Type().(*types.Signature).Recv() == nil
		for _, ev := range n.events {
			if !isGlobal(ev.root) || !inModule(ev.root.Pkg()) {
				continue
			}
			if isInit || (n.gvar != nil && ev.lit == nil) {
				continue // package initialisation happens before any API call
			}
			if a.mutates(ev, false) {
				detail := kindName[ev.kind]
				if ev.kind == evM {
					detail = "method " + ev.mname
				} else if ev.kind == evA {
					detail = "argument of " + ev.calleeStr
				}
				addDirect(n, ev.root, fmt.Sprintf("%s: %s (%s)", n.key, detail, shortPos(a.fset.Position(ev.pos))))
			}
		}
		// any mention of a closure-state global runs / hands out the closure that mutates its captured state
		for g := range n.refsG {
			if why := a.closureState[g]; why != "" {
				addDirect(n, g, fmt.Sprintf("%s: uses closure with captured state [%s]", n.key, shortWhy(why)))
			}
		}
	}

	// reach
	succ := func(n *fnode) []*fnode {
		var out []*fnode
		for f := range n.refsF {
			if m := a.funcs[f]; m != nil {
				out = append(out, m)
			}
		}
		for g := range n.refsG {
			if m := a.inits[g]; m != nil {
				out = append(out, m)
			}
		}
		for name := range n.dyn {
			for _, f := range a.methodsByName[name] {
				if m := a.funcs[f]; m != nil {
					out = append(out, m)
				}
			}
		}
		return out
	}
	reachMut := func(entry *fnode) (map[*types.Var]bool, map[*types.Var]string) {
		seen := map[*fnode]bool{entry: true}
		work := []*fnode{entry}
		res := map[*types.Var]bool{}
		why := map[*types.Var]string{}
		for len(work) > 0 {
			n := work[len(work)-1]
			work = work[:len(work)-1]
			for g, ws := range direct[n] {
				if !res[g] {
					res[g] = true
					why[g] = ws[0]
				}
			}
			for _, m := range succ(n) {
				if !seen[m] {
					seen[m] = true
					work = append(work, m)
				}
			}
		}
		return res, why
	}

	// API entries
	var apis []apifact
	mutBy := map[*types.Var]map[string]bool{}
	sites := map[*types.Var]map[string]bool{}
	addAPI := func(name string, entry *fnode) {
		res, why := reachMut(entry)
		var ms []string
		for g := range res {
			ms = append(ms, globalKey(g))
			if mutBy[g] == nil {
				mutBy[g] = map[string]bool{}
				sites[g] = map[string]bool{}
			}
			mutBy[g][name] = true
			sites[g][why[g]] = true
		}
		sort.Strings(ms)
		apis = append(apis, apifact{API: name, Mutated: ms})
	}
	isAPIpkg := func(p *types.Package) bool {
		r := rel(p)
		return p.Name() != "main" && r != "internal" && !strings.HasPrefix(r, "internal/") && !strings.Contains(r, "/internal/")
	}
	for _, n := range all {
		if n.obj != nil && n.obj.Exported() && isAPIpkg(n.obj.Pkg()) {
			addAPI(n.key, n)
		}
	}
	for _, g := range a.globals {
		if g.Exported() && isAPIpkg(g.Pkg()) {
			// using the variable = reading it (and, for function values, calling it)
			pseudo := &fnode{key: "var:" + globalKey(g), refsF: map[*types.Func]bool{}, refsG: map[*types.Var]bool{g: true}, dyn: map[string]bool{}}
			if why := a.closureState[g]; why != "" {
				direct[pseudo] = map[*types.Var][]string{g: {fmt.Sprintf("var %s: closure with captured state [%s]", globalKey(g), shortWhy(why))}}
			}
			addAPI(globalKey(g), pseudo)
		}
	}
	sort.Slice(apis, func(i, j int) bool { return apis[i].API < apis[j].API })

	// globals table
	assignedAnywhere := map[*types.Var]bool{}
	for _, n := range all {
		for g := range direct[n] {
			assignedAnywhere[g] = true
		}
	}
	var gs []gfact
	for _, g := range a.globals {
		f := gfact{Name: globalKey(g), Type: types.TypeString(g.Type(), func(p *types.Package) string { return p.Name() })}
		switch {
		case a.closureState[g] != "":
			f.Class = "closureState"
		case a.statelessRand[g] != "":
			f.Class = "statelessRand"
		case assignedAnywhere[g]:
			f.Class = "mutable"
		default:
			f.Class = "immutable"
		}
		for s := range sites[g] {
			f.Sites = append(f.Sites, s)
		}
		for b := range mutBy[g] {
			f.By = append(f.By, b)
		}
		sort.Strings(f.Sites)
		sort.Strings(f.By)
		f.Mutated = len(f.By) > 0
		if !f.Mutated && f.Class == "mutable" {
			f.Class = "mutableUnreached" // written only by code no exported API reaches
		}
		gs = append(gs, f)
	}
	return gs, apis
}

var repoRoot = "/repo"

func shortPos(p token.Position) string {
	f := strings.TrimPrefix(strings.TrimPrefix(p.Filename, repoRoot), "/")
	return fmt.Sprintf("%s:%d", f, p.Line)
}

func shortWhy(s string) string { return s }

// ------------------------------------------------------------------------------------------------

func leanStr(s string) string {
	var b strings.Builder
	b.WriteByte('"')
	for _, r := range s {
		switch {
		case r == '"':
			b.WriteString("\\\"")
		case r == '\\':
			b.WriteString("\\\\")
		case r == '\n':
			b.WriteString("\\n")
		case r < 0x20:
			fmt.Fprintf(&b, "\\x%02x", r)
		default:
			b.WriteRune(r)
		}
	}
	b.WriteByte('"')
	return b.String()
}

func leanList(xs []string) string {
	ys := make([]string, len(xs))
	for i, x := range xs {
		ys[i] = leanStr(x)
	}
	return "[" + strings.Join(ys, ", ") + "]"
}

func render(gs []gfact, apis []apifact) string {
	var b bytes.Buffer
	b.WriteString("/- GENERATED by /verif/bin/pre-C20 (extract/c20) from /repo's current source — do not edit.\n")
	b.WriteString("   Package-level variables of the library, their classification, and for every exported API entry\n")
	b.WriteString("   the package-level variables that code reachable from it may mutate. -/\n")
	b.WriteString("namespace AlgoVerif.Generated.C20\n\n")
	b.WriteString("/-- how the extractor classified a package-level variable -/\n")
	b.WriteString("inductive GClass where\n  | immutable | statelessRand | mutableUnreached | mutable | closureState\n  deriving Repr, DecidableEq, Inhabited\n\n")
	b.WriteString("structure GlobalVar where\n  name : String\n  type : String\n  cls : GClass\n  /-- mutated by code reachable from some exported API entry -/\n  mutated : Bool\n  sites : List String\n  deriving Repr\n\n")
	b.WriteString("structure ApiReach where\n  api : String\n  mutatedGlobals : List String\n  deriving Repr\n\n")
	b.WriteString("def globals : List GlobalVar := [\n")
	for i, g := range gs {
		sep := ","
		if i == len(gs)-1 {
			sep = ""
		}
		fmt.Fprintf(&b, "  ⟨%s, %s, .%s, %v, %s⟩%s\n", leanStr(g.Name), leanStr(g.Type), g.Class, g.Mutated, leanList(g.Sites), sep)
	}
	b.WriteString("]\n\n")
	// API table in chunks per package so that no single literal is huge
	byPkg := map[string][]apifact{}
	var pkgs []string
	for _, a := range apis {
		i := strings.LastIndex(a.API, ".")
		p := a.API[:i]
		if j := strings.Index(p, "."); j >= 0 && !strings.Contains(p[:j], "/") {
			// pkg.Type.Method -> pkg
			p = p[:j]
		} else if k := strings.LastIndex(p, "."); k >= 0 {
			p = p[:k]
		}
		if _, ok := byPkg[p]; !ok {
			pkgs = append(pkgs, p)
		}
		byPkg[p] = append(byPkg[p], a)
	}
	sort.Strings(pkgs)
	var names []string
	for _, p := range pkgs {
		id := "api_" + strings.NewReplacer("/", "_", ".", "_", "-", "_").Replace(p)
		if p == "" {
			id = "api_root"
		}
		names = append(names, id)
		fmt.Fprintf(&b, "def %s : List ApiReach := [\n", id)
		as := byPkg[p]
		for i, a := range as {
			sep := ","
			if i == len(as)-1 {
				sep = ""
			}
			fmt.Fprintf(&b, "  ⟨%s, %s⟩%s\n", leanStr(a.API), leanList(a.Mutated), sep)
		}
		b.WriteString("]\n\n")
	}
	b.WriteString("/-- the chunks of the API table, one per package -/\n")
	fmt.Fprintf(&b, "def apiChunks : List (List ApiReach) := [%s]\n\n", strings.Join(names, ", "))
	b.WriteString("/-- exported API entry ↦ package-level variables that code reachable from it may mutate -/\n")
	b.WriteString("def apiReach : List ApiReach := apiChunks.flatten\n\n")
	var mutated []string
	for _, g := range gs {
		if g.Mutated {
			mutated = append(mutated, g.Name)
		}
	}
	fmt.Fprintf(&b, "/-- the package-level variables mutated by API-reachable code (empty = no shared mutable state) -/\ndef mutatedGlobals : List String := %s\n\n", leanList(mutated))
	fmt.Fprintf(&b, "def numGlobals : Nat := %d\ndef numApis : Nat := %d\n\n", len(gs), len(apis))
	b.WriteString("end AlgoVerif.Generated.C20\n")
	return b.String()
}

func main() {
	repo := flag.String("repo", "/repo", "repository root")
	out := flag.String("out", "", "Lean file to (re)write when its content changes")
	jsonOut := flag.String("json", "", "also write the facts as JSON")
	verbose := flag.Bool("v", false, "print the mutated globals and why")
	flag.Parse()

	repoRoot = strings.TrimSuffix(*repo, "/")
	a := &analysis{}
	if err := a.load(*repo); err != nil {
		fmt.Fprintln(os.Stderr, "c20 extract:", err)
		os.Exit(1)
	}
	gs, apis := a.run()
	text := render(gs, apis)
	if *out != "" {
		old, _ := os.ReadFile(*out)
		if string(old) != text {
			if err := os.WriteFile(*out, []byte(text), 0o644); err != nil {
				fmt.Fprintln(os.Stderr, err)
				os.Exit(1)
			}
			fmt.Println("rewrote", *out)
		} else {
			fmt.Println("unchanged", *out)
		}
	}
	if *jsonOut != "" {
		j, _ := json.MarshalIndent(map[string]any{"globals": gs, "apis": apis}, "", " ")
		os.WriteFile(*jsonOut, j, 0o644)
	}
	nm := 0
	for _, g := range gs {
		if g.Mutated {
			nm++
			if *verbose {
				fmt.Printf("MUTATED %s (%s): %s\n   by %d API entries, e.g. %s\n", g.Name, g.Class, strings.Join(g.Sites, "; "), len(g.By), g.By[0])
			}
		} else if *verbose {
			fmt.Printf("ok      %s : %s (%s)\n", g.Name, g.Type, g.Class)
		}
	}
	fmt.Printf("globals=%d mutated=%d apis=%d\n", len(gs), nm, len(apis))
}
