module verifextractc19

go 1.23.4
